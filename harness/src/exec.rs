//! Scenario executor: every `run` command is one call of the real `spawn_reader_thread` on a
//! segment file holding the given lines; the table is observed through the public `Arc`.

use crate::proj::{copy_plane, cps, ms, proj, shift_back};
use chrono::{DateTime, Duration, Utc};
use clap::Parser;
use serde_json::{Map, Value, json};
use squitterator::{
    Args, Plane, Planes, get_downlink_format, get_icao, get_message, set_observer_coords_from_str,
    spawn_reader_thread,
};
use std::cell::RefCell;
use std::collections::{BTreeMap, HashMap};
use std::fs::File;
use std::io::{BufRead, BufReader, BufWriter, Write};
use std::panic::{AssertUnwindSafe, catch_unwind};
use std::sync::{Arc, Mutex, RwLock};

thread_local! {
    pub static LAST_PANIC: RefCell<Option<String>> = const { RefCell::new(None) };
}
pub static LAST_PANIC_GLOBAL: Mutex<Option<String>> = Mutex::new(None);

type Table = Arc<RwLock<HashMap<u32, Plane>>>;

struct Slot {
    opts: Vec<String>,
    args: Option<Arc<Args>>,
    table: Table,
}

pub struct Exec {
    epoch: DateTime<Utc>,
    slots: BTreeMap<u64, Slot>,
    saved: HashMap<(u64, u64), (DateTime<Utc>, Vec<(u32, Plane)>)>,
    seg: String,
    out: BufWriter<File>,
    idx: u64,
    profile: &'static str,
}

pub fn profile() -> &'static str {
    if cfg!(debug_assertions) { "checked" } else { "release" }
}

fn bytes_of(v: &Value) -> Result<Vec<u8>, String> {
    match v {
        Value::String(s) => Ok(s.as_bytes().to_vec()),
        Value::Array(a) => a
            .iter()
            .map(|x| x.as_u64().filter(|&b| b < 256).map(|b| b as u8).ok_or("bad byte".to_string()))
            .collect(),
        _ => Err("line must be a string or a byte array".into()),
    }
}

fn snapshot(t: &Table, epoch: DateTime<Utc>) -> BTreeMap<u32, Value> {
    let g = match t.read() {
        Ok(g) => g,
        Err(p) => p.into_inner(),
    };
    g.iter().map(|(k, p)| (*k, proj(p, epoch))).collect()
}

fn diff(pre: &BTreeMap<u32, Value>, post: &BTreeMap<u32, Value>) -> Vec<Value> {
    let mut keys: Vec<u32> = pre.keys().chain(post.keys()).copied().collect();
    keys.sort();
    keys.dedup();
    let mut ch = vec![];
    for k in keys {
        let a = pre.get(&k);
        let b = post.get(&k);
        if a != b {
            ch.push(json!({
                "a": k,
                "pre": a.map(|x| json!([x])).unwrap_or(json!([])),
                "post": b.map(|x| json!([x])).unwrap_or(json!([])),
            }));
        }
    }
    ch
}

impl Exec {
    fn emit(&mut self, mut v: Map<String, Value>) -> Result<(), String> {
        self.idx += 1;
        v.insert("i".into(), json!(self.idx));
        serde_json::to_writer(&mut self.out, &Value::Object(v)).map_err(|e| e.to_string())?;
        self.out.write_all(b"\n").map_err(|e| e.to_string())
    }

    fn slot_id(cmd: &Value) -> u64 {
        cmd.get("slot").and_then(|s| s.as_u64()).unwrap_or(0)
    }

    fn parse_args(&self, opts: &[String]) -> Result<Args, String> {
        let mut v = vec!["squitterator".to_string()];
        v.extend(opts.iter().cloned());
        v.push("-s".into());
        v.push(self.seg.clone());
        match catch_unwind(AssertUnwindSafe(|| Args::try_parse_from(v))) {
            Ok(Ok(a)) => Ok(a),
            Ok(Err(e)) => Err(format!("clap: {}", e.kind())),
            Err(_) => Err("panic in argument parsing".into()),
        }
    }

    fn reset(&mut self, cmd: &Value) -> Result<(), String> {
        let sid = Self::slot_id(cmd);
        let opts: Vec<String> = cmd
            .get("opts")
            .and_then(|o| o.as_array())
            .map(|a| a.iter().filter_map(|x| x.as_str().map(String::from)).collect())
            .unwrap_or_default();
        let parsed = self.parse_args(&opts);
        let mut ev = Map::new();
        ev.insert("e".into(), json!("reset"));
        ev.insert("slot".into(), json!(sid));
        ev.insert("opts".into(), json!(opts));
        ev.insert("profile".into(), json!(self.profile));
        if let Some(tag) = cmd.get("tag") {
            ev.insert("tag".into(), tag.clone());
        }
        let args = match parsed {
            Ok(a) => {
                // what main() does before starting the reader
                if let Some(c) = &a.observer_coord {
                    let c = c.clone();
                    let _ = catch_unwind(AssertUnwindSafe(|| set_observer_coords_from_str(&c)));
                }
                ev.insert("argerr".into(), json!([]));
                ev.insert(
                    "args".into(),
                    json!({
                        "U": a.use_update_method, "R": a.relaxed, "c": a.count_df,
                        "f": match &a.filter { Some(f) => json!([f]), None => json!([]) },
                        "d": crate::proj::clamp(a.delete_after), "u": crate::proj::clamp(a.update),
                        "i": cps(&a.display_info.concat()), "o": cps(&a.order_by.concat()),
                        "O": match &a.observer_coord { Some(s) => json!([cps(s)]), None => json!([]) },
                    }),
                );
                Some(Arc::new(a))
            }
            Err(e) => {
                ev.insert("argerr".into(), json!([e]));
                None
            }
        };
        self.slots.insert(sid, Slot { opts, args, table: Arc::new(RwLock::new(HashMap::new())) });
        self.emit(ev)
    }

    fn run_cmd(&mut self, cmd: &Value) -> Result<(), String> {
        let sid = Self::slot_id(cmd);
        let lines: Vec<Vec<u8>> = cmd
            .get("lines")
            .and_then(|l| l.as_array())
            .ok_or("run: no lines")?
            .iter()
            .map(bytes_of)
            .collect::<Result<_, _>>()?;
        let noeol = cmd.get("noeol").and_then(|b| b.as_bool()).unwrap_or(false);
        let direct = cmd.get("direct").and_then(|b| b.as_bool()).unwrap_or(false);
        let epoch = self.epoch;
        let (args, table) = {
            let s = self.slots.get(&sid).ok_or("run: slot not reset")?;
            (s.args.clone(), s.table.clone())
        };
        let mut ev = Map::new();
        ev.insert("e".into(), json!("run"));
        ev.insert("slot".into(), json!(sid));
        ev.insert(
            "lines".into(),
            Value::Array(lines.iter().map(|l| json!(l)).collect()),
        );
        if let Some(tag) = cmd.get("tag") {
            ev.insert("tag".into(), tag.clone());
        }
        let Some(args) = args else {
            ev.insert("out".into(), json!("noargs"));
            ev.insert("outk".into(), json!("noargs"));
            return self.emit(ev);
        };
        {
            let mut f = File::create(&self.seg).map_err(|e| e.to_string())?;
            for (i, l) in lines.iter().enumerate() {
                f.write_all(l).map_err(|e| e.to_string())?;
                if !(noeol && i + 1 == lines.len()) {
                    f.write_all(b"\n").map_err(|e| e.to_string())?;
                }
            }
        }
        let pre = snapshot(&table, epoch);
        let mut planes = Planes::new();
        planes.aircrafts = table.clone();
        LAST_PANIC_GLOBAL.lock().map(|mut g| *g = None).ok();
        // optional: another thread keeps taking (and briefly holding) read guards on the public table while the reader
        // runs - what any consumer of `Planes.aircrafts` may do; the reader must wait for the lock, not skip the frame
        let contend = cmd.get("contend").and_then(|b| b.as_bool()).unwrap_or(false);
        let stop = Arc::new(std::sync::atomic::AtomicBool::new(false));
        let contender = if contend {
            let (t2, s2) = (table.clone(), stop.clone());
            Some(std::thread::spawn(move || {
                while !s2.load(std::sync::atomic::Ordering::Relaxed) {
                    {
                        let _g = t2.read();
                        std::thread::sleep(std::time::Duration::from_micros(400));
                    }
                    std::thread::sleep(std::time::Duration::from_micros(150));
                }
            }))
        } else {
            None
        };
        if contend {
            std::thread::sleep(std::time::Duration::from_millis(2));
        }
        let tb = Utc::now();
        // should the code under test take the whole process down (stack overflow, abort), the driver finds the event
        // of the run that was in flight here and appends it to the trace
        {
            let mut pe = ev.clone();
            pe.insert("out".into(), json!("crash: the harness process died during this run"));
            pe.insert("outk".into(), json!("crash"));
            pe.insert("ok".into(), json!(false));
            pe.insert("tb".into(), json!(ms(tb, epoch)));
            pe.insert("ta".into(), json!(ms(tb, epoch)));
            pe.insert("k0".into(), json!(pre.keys().collect::<Vec<_>>()));
            pe.insert("k1".into(), json!(pre.keys().collect::<Vec<_>>()));
            pe.insert("ch".into(), json!([]));
            pe.insert("i".into(), json!(self.idx + 1));
            self.out.flush().map_err(|e| e.to_string())?;
            std::fs::write(format!("{}.pending", self.seg), serde_json::to_vec(&Value::Object(pe)).map_err(|e| e.to_string())?)
                .map_err(|e| e.to_string())?;
        }
        let h = spawn_reader_thread(args.clone(), planes);
        // a reader that never returns is data too ("fails to terminate"): wait with a deadline
        let limit_ms: u64 = std::env::var("SQV_RUN_TIMEOUT_MS").ok().and_then(|v| v.parse().ok()).unwrap_or(10000)
            + (lines.iter().map(|l| l.len() as u64).sum::<u64>() / 1000);
        let t_start = std::time::Instant::now();
        while !h.is_finished() && (t_start.elapsed().as_millis() as u64) < limit_ms {
            std::thread::sleep(std::time::Duration::from_micros(if t_start.elapsed().as_millis() < 5 { 20 } else { 2000 }));
        }
        if !h.is_finished() {
            // the thread cannot be killed and may hold the table lock: record the hang and stop this harness process
            ev.insert("out".into(), json!(format!("hang: reader thread still running after {} ms", limit_ms)));
            ev.insert("outk".into(), json!("hang"));
            ev.insert("ok".into(), json!(false));
            ev.insert("tb".into(), json!(ms(tb, epoch)));
            ev.insert("ta".into(), json!(ms(Utc::now(), epoch)));
            ev.insert("k0".into(), json!(pre.keys().collect::<Vec<_>>()));
            ev.insert("k1".into(), json!(pre.keys().collect::<Vec<_>>()));
            ev.insert("ch".into(), json!([]));
            self.emit(ev)?;
            let mut ab = Map::new();
            ab.insert("e".into(), json!("abort"));
            ab.insert("why".into(), json!("hang"));
            self.emit(ab)?;
            self.out.flush().map_err(|e| e.to_string())?;
            std::process::exit(0);
        }
        let r = h.join();
        let ta = Utc::now();
        stop.store(true, std::sync::atomic::Ordering::Relaxed);
        if let Some(c) = contender {
            let _ = c.join();
        }
        let out = match r {
            Ok(Ok(())) => "ok".to_string(),
            Ok(Err(e)) => format!("err:{}", e),
            Err(_) => format!(
                "panic:{}",
                LAST_PANIC_GLOBAL.lock().ok().and_then(|g| g.clone()).unwrap_or_default()
            ),
        };
        let post = snapshot(&table, epoch);
        if table.is_poisoned() {
            // un-poison: same rows in a fresh lock, otherwise every later run is silently ignored
            let mut byk = HashMap::new();
            {
                let g = match table.read() {
                    Ok(g) => g,
                    Err(p) => p.into_inner(),
                };
                for (k, p) in g.iter() {
                    byk.insert(*k, copy_plane(p));
                }
            }
            if let Some(s) = self.slots.get_mut(&sid) {
                s.table = Arc::new(RwLock::new(byk));
            }
            ev.insert("poisoned".into(), json!(true));
        }
        let outk = if out == "ok" { "ok" } else if out.starts_with("err:") { "err" } else { "panic" };
        ev.insert("out".into(), json!(out.replace('\n', " ")));
        ev.insert("outk".into(), json!(outk));
        ev.insert("ok".into(), json!(out == "ok"));
        ev.insert("tb".into(), json!(ms(tb, epoch)));
        ev.insert("ta".into(), json!(ms(ta, epoch)));
        ev.insert("k0".into(), json!(pre.keys().collect::<Vec<_>>()));
        ev.insert("k1".into(), json!(post.keys().collect::<Vec<_>>()));
        ev.insert("ch".into(), Value::Array(diff(&pre, &post)));
        if direct {
            let mut d = vec![];
            for l in &lines {
                d.push(direct_calls(l));
            }
            ev.insert("direct".into(), Value::Array(d));
        }
        self.emit(ev)
    }

    fn tick(&mut self, cmd: &Value) -> Result<(), String> {
        let d = cmd.get("ms").and_then(|d| d.as_i64()).ok_or("tick: no ms")?;
        for s in self.slots.values() {
            let mut g = match s.table.write() {
                Ok(g) => g,
                Err(p) => p.into_inner(),
            };
            for p in g.values_mut() {
                shift_back(p, Duration::milliseconds(d));
            }
        }
        let mut ev = Map::new();
        ev.insert("e".into(), json!("tick"));
        ev.insert("ms".into(), json!(d));
        self.emit(ev)
    }

    fn sleep(&mut self, cmd: &Value) -> Result<(), String> {
        let d = cmd.get("ms").and_then(|d| d.as_u64()).ok_or("sleep: no ms")?;
        std::thread::sleep(std::time::Duration::from_millis(d));
        let mut ev = Map::new();
        ev.insert("e".into(), json!("sleep"));
        ev.insert("ms".into(), json!(d));
        self.emit(ev)
    }

    fn save(&mut self, cmd: &Value, restore: bool) -> Result<(), String> {
        let id = cmd.get("id").and_then(|d| d.as_u64()).ok_or("save: no id")?;
        let sids: Vec<u64> = self.slots.keys().copied().collect();
        let now = Utc::now();
        for sid in sids {
            if restore {
                let (t0, rows) = self.saved.get(&(sid, id)).ok_or("restore: unknown id")?;
                // ages are preserved: stamps move forward by the real time spent since the save
                let fwd = t0.signed_duration_since(now);
                let m: HashMap<u32, Plane> = rows
                    .iter()
                    .map(|(k, p)| {
                        let mut q = copy_plane(p);
                        shift_back(&mut q, fwd);
                        (*k, q)
                    })
                    .collect();
                let s = self.slots.get_mut(&sid).unwrap();
                s.table = Arc::new(RwLock::new(m));
            } else {
                let s = self.slots.get(&sid).unwrap();
                let g = match s.table.read() {
                    Ok(g) => g,
                    Err(p) => p.into_inner(),
                };
                let rows: Vec<(u32, Plane)> = g.iter().map(|(k, p)| (*k, copy_plane(p))).collect();
                drop(g);
                self.saved.insert((sid, id), (now, rows));
            }
        }
        let mut ev = Map::new();
        ev.insert("e".into(), json!(if restore { "restore" } else { "save" }));
        ev.insert("id".into(), json!(id));
        ev.insert("now".into(), json!(ms(now, self.epoch)));
        if restore {
            // full table contents so that the trace stays self-contained
            let mut tabs = Map::new();
            for (sid, s) in &self.slots {
                let snap = snapshot(&s.table, self.epoch);
                tabs.insert(
                    sid.to_string(),
                    Value::Array(snap.into_iter().map(|(k, v)| json!({"a": k, "row": v})).collect()),
                );
            }
            ev.insert("tables".into(), Value::Object(tabs));
        }
        self.emit(ev)
    }

    fn dump(&mut self, cmd: &Value) -> Result<(), String> {
        let sid = Self::slot_id(cmd);
        let s = self.slots.get(&sid).ok_or("dump: slot not reset")?;
        let snap = snapshot(&s.table, self.epoch);
        let mut ev = Map::new();
        ev.insert("e".into(), json!("dump"));
        ev.insert("slot".into(), json!(sid));
        ev.insert("now".into(), json!(ms(Utc::now(), self.epoch)));
        if let Some(tag) = cmd.get("tag") {
            ev.insert("tag".into(), tag.clone());
        }
        ev.insert(
            "rows".into(),
            Value::Array(snap.into_iter().map(|(k, v)| json!({"a": k, "row": v})).collect()),
        );
        self.emit(ev)
    }
}

fn direct_calls(line: &[u8]) -> Value {
    // status codes: 0 = None, 1 = Some, 2 = panicked, 3 = not called
    let Ok(s) = std::str::from_utf8(line) else {
        return json!({"utf8": false, "gms": 3, "gm": [], "gdf": -1, "gis": 3, "gi": 0});
    };
    let gm = catch_unwind(AssertUnwindSafe(|| get_message(s)));
    match gm {
        Err(_) => json!({"utf8": true, "gms": 2, "gm": [], "gdf": -1, "gis": 3, "gi": 0}),
        Ok(None) => json!({"utf8": true, "gms": 0, "gm": [], "gdf": -1, "gis": 3, "gi": 0}),
        Ok(Some(m)) => {
            let df = catch_unwind(AssertUnwindSafe(|| get_downlink_format(&m)));
            let (dfv, gis, gi) = match df {
                Ok(Some(df)) => {
                    let ic = catch_unwind(AssertUnwindSafe(|| get_icao(&m, df)));
                    match ic {
                        Ok(Some(v)) => (df as i64, 1, v),
                        Ok(None) => (df as i64, 0, 0),
                        Err(_) => (df as i64, 2, 0),
                    }
                }
                Ok(None) => (-1, 3, 0),
                Err(_) => (-2, 3, 0),
            };
            json!({"utf8": true, "gms": 1, "gm": m, "gdf": dfv, "gis": gis, "gi": gi})
        }
    }
}

pub fn run(scenario: &str, trace: &str, workdir: &str) -> Result<(), String> {
    std::fs::create_dir_all(workdir).map_err(|e| e.to_string())?;
    let inp = BufReader::new(File::open(scenario).map_err(|e| format!("{}: {}", scenario, e))?);
    let out = BufWriter::new(File::create(trace).map_err(|e| format!("{}: {}", trace, e))?);
    let mut ex = Exec {
        epoch: Utc::now() - Duration::days(10),
        slots: BTreeMap::new(),
        saved: HashMap::new(),
        seg: format!("{}/segment.txt", workdir),
        out,
        idx: 0,
        profile: profile(),
    };
    for (n, line) in inp.lines().enumerate() {
        let line = line.map_err(|e| e.to_string())?;
        if line.trim().is_empty() {
            continue;
        }
        let cmd: Value = serde_json::from_str(&line).map_err(|e| format!("scenario line {}: {}", n + 1, e))?;
        let c = cmd.get("c").and_then(|c| c.as_str()).ok_or(format!("scenario line {}: no c", n + 1))?;
        let r = match c {
            "reset" => ex.reset(&cmd),
            "run" => ex.run_cmd(&cmd),
            "tick" => ex.tick(&cmd),
            "sleep" => ex.sleep(&cmd),
            "save" => ex.save(&cmd, false),
            "restore" => ex.save(&cmd, true),
            "dump" => ex.dump(&cmd),
            _ => Err(format!("unknown command {}", c)),
        };
        r.map_err(|e| format!("scenario line {}: {}", n + 1, e))?;
    }
    ex.out.flush().map_err(|e| e.to_string())?;
    let _ = std::fs::remove_file(&ex.seg);
    Ok(())
}
