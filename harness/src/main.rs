//! sqv - drives the real squitterator code and records what it did.
//!
//! The harness never contains an expected value.  It (a) feeds inputs to the real reader loop /
//! public API, (b) projects the public `Plane` fields to JSON, (c) applies semantics-free
//! transforms (diff of two projections, run-length encoding, XOR of two integers).  All judging is
//! done by TLC against the TLA+ specification (spec/TraceCheck.tla).
//!
//! Sub-commands
//!   exec  <scenario.ndjson> <trace.ndjson> <workdir>   run scenario commands, write trace events
//!   print <cases.ndjson>                                 render constructed tables to stdout
//!   icaosweep <spec.json> <out.ndjson>                   RLE of get_icao(frame(v)) ^ v over 2^24 v
//!   country <out.ndjson>                                 RLE of row.reg over all 2^24 addresses
//!   burst <spec.json> <out.ndjson> <workdir>             C04 burst-error sweeps (sweepsum events)

#![recursion_limit = "512"]
mod exec;
mod proj;
mod sweeps;
mod table;

use std::env;
use std::process::exit;

fn main() {
    // a panic of the code under test is data; keep stderr quiet and remember the message
    std::panic::set_hook(Box::new(|info| {
        let msg = format!("{}", info);
        exec::LAST_PANIC.with(|c| *c.borrow_mut() = Some(msg.clone()));
        if let Ok(mut g) = exec::LAST_PANIC_GLOBAL.lock() {
            *g = Some(msg);
        }
    }));
    let a: Vec<String> = env::args().collect();
    if a.len() < 2 {
        eprintln!("usage: sqv exec|print|icaosweep|country|burst ...");
        exit(2);
    }
    let r = match a[1].as_str() {
        "exec" if a.len() == 5 => exec::run(&a[2], &a[3], &a[4]),
        "print" if a.len() == 3 => table::print_cases(&a[2]),
        "icaosweep" if a.len() == 4 => sweeps::icao_sweep(&a[2], &a[3]),
        "country" if a.len() == 3 => sweeps::country(&a[2]),
        "burst" if a.len() == 5 => sweeps::burst(&a[2], &a[3], &a[4]),
        _ => Err(format!("bad arguments: {:?}", &a[1..])),
    };
    if let Err(e) = r {
        eprintln!("sqv: {}", e);
        exit(2);
    }
}
