//! Projection of the public `Plane` fields to JSON, field-by-field copy, stamp shifting.
//! No decoding logic lives here: integers stay integers, floats become fixed point, optional
//! values become `[]` / `[v]` (the TLA+ JSON reader rejects null), text becomes code points.

use chrono::{DateTime, Duration, Utc};
use serde_json::{Value, json};
use squitterator::Plane;

const I32MAX: i64 = 2147483647;

pub fn clamp(v: i64) -> i64 {
    v.clamp(-I32MAX, I32MAX)
}

fn fx(v: f64, scale: f64) -> i64 {
    if v.is_finite() {
        clamp((v * scale).round() as i64)
    } else {
        I32MAX
    }
}

fn ou(v: Option<u32>) -> Value {
    match v {
        Some(x) => json!([clamp(x as i64)]),
        None => json!([]),
    }
}
fn oi(v: Option<i32>) -> Value {
    match v {
        Some(x) => json!([clamp(x as i64)]),
        None => json!([]),
    }
}
fn of(v: Option<f64>, scale: f64) -> Value {
    match v {
        Some(x) => json!([fx(x, scale)]),
        None => json!([]),
    }
}
fn oc(v: Option<char>) -> Value {
    match v {
        Some(x) => json!([x as u32]),
        None => json!([]),
    }
}
pub fn ms(t: DateTime<Utc>, epoch: DateTime<Utc>) -> i64 {
    clamp(t.signed_duration_since(epoch).num_milliseconds())
}
fn ot(v: Option<DateTime<Utc>>, epoch: DateTime<Utc>) -> Value {
    match v {
        Some(x) => json!([ms(x, epoch)]),
        None => json!([]),
    }
}
pub fn cps(s: &str) -> Value {
    Value::Array(s.chars().map(|c| json!(c as u32)).collect())
}

pub fn proj(p: &Plane, epoch: DateTime<Utc>) -> Value {
    let c = &p.capability.1;
    json!({
        "a": p.icao,
        "ca": clamp(p.capability.0 as i64),
        "caps": [clamp(c.flags as i64), c.bds20 as u32, c.bds40 as u32, c.bds44 as u32, c.bds50 as u32, c.bds60 as u32],
        "cat": [clamp(p.category.0 as i64), clamp(p.category.1 as i64)],
        "reg": p.reg,
        "regcp": cps(p.reg),
        "cs": match &p.ais { Some(s) => json!([cps(s)]), None => json!([]) },
        "alt": ou(p.altitude),
        "altg": ou(p.altitude_gnss),
        "alts": p.altitude_source as u32,
        "sel": ou(p.selected_altitude),
        "baro": ou(p.barometric_pressure_setting),
        "sels": p.target_altitude_source as u32,
        "sq": ou(p.squawk),
        "ss": p.surveillance_status as u32,
        "thr": oc(p.threat_encounter),
        "vr": oi(p.vrate),
        "vrs": p.vrate_source as u32,
        "cprlat": [p.cpr_lat[0], p.cpr_lat[1]],
        "cprlon": [p.cpr_lon[0], p.cpr_lon[1]],
        "cprt": [ms(p.cpr_time[0], epoch), ms(p.cpr_time[1], epoch)],
        "lat": fx(p.lat, 1e6),
        "lon": fx(p.lon, 1e6),
        "dist": of(p.distance_from_observer, 1000.0),
        "gs": ou(p.grspeed),
        "tas": ou(p.true_airspeed),
        "ias": ou(p.indicated_airspeed),
        "mach": of(p.mach_number, 1000.0),
        "gm": of(p.ground_movement, 1000.0),
        "turn": clamp(p.turn as i64),
        "trk": ou(p.track),
        "trks": p.track_source as u32,
        "hdg": ou(p.heading),
        "hdgs": p.heading_source as u32,
        "roll": oi(p.roll_angle),
        "tar": oi(p.track_angle_rate),
        "t50": ot(p.bds_5_0_timestamp, epoch),
        "temp": of(p.temperature, 100.0),
        "wind": match p.wind { Some((s, d)) => json!([[clamp(s as i64), clamp(d as i64)]]), None => json!([]) },
        "turb": ou(p.turbulence),
        "hum": ou(p.humidity),
        "pres": ou(p.pressure),
        "ts": ms(p.timestamp, epoch),
        "pts": ot(p.position_timestamp, epoch),
        "tts": ot(p.track_timestamp, epoch),
        "hts": ot(p.heading_timestamp, epoch),
        "ltc": clamp(p.last_type_code as i64),
        "ldf": clamp(p.last_df as i64),
        "ver": ou(p.adsb_version),
    })
}

/// `Plane` is not `Clone`; all its fields are public.
pub fn copy_plane(p: &Plane) -> Plane {
    let mut q = Plane::new();
    q.icao = p.icao;
    q.capability.0 = p.capability.0;
    q.capability.1.flags = p.capability.1.flags;
    q.capability.1.bds20 = p.capability.1.bds20;
    q.capability.1.bds40 = p.capability.1.bds40;
    q.capability.1.bds44 = p.capability.1.bds44;
    q.capability.1.bds50 = p.capability.1.bds50;
    q.capability.1.bds60 = p.capability.1.bds60;
    q.category = p.category;
    q.reg = p.reg;
    q.ais = p.ais.clone();
    q.altitude = p.altitude;
    q.altitude_gnss = p.altitude_gnss;
    q.altitude_source = p.altitude_source;
    q.selected_altitude = p.selected_altitude;
    q.barometric_pressure_setting = p.barometric_pressure_setting;
    q.target_altitude_source = p.target_altitude_source;
    q.squawk = p.squawk;
    q.surveillance_status = p.surveillance_status;
    q.threat_encounter = p.threat_encounter;
    q.vrate = p.vrate;
    q.vrate_source = p.vrate_source;
    q.cpr_lat = p.cpr_lat;
    q.cpr_lon = p.cpr_lon;
    q.cpr_time = p.cpr_time;
    q.lat = p.lat;
    q.lon = p.lon;
    q.distance_from_observer = p.distance_from_observer;
    q.grspeed = p.grspeed;
    q.true_airspeed = p.true_airspeed;
    q.indicated_airspeed = p.indicated_airspeed;
    q.mach_number = p.mach_number;
    q.ground_movement = p.ground_movement;
    q.turn = p.turn;
    q.track = p.track;
    q.track_source = p.track_source;
    q.heading = p.heading;
    q.heading_source = p.heading_source;
    q.roll_angle = p.roll_angle;
    q.track_angle_rate = p.track_angle_rate;
    q.bds_5_0_timestamp = p.bds_5_0_timestamp;
    q.temperature = p.temperature;
    q.wind = p.wind;
    q.turbulence = p.turbulence;
    q.humidity = p.humidity;
    q.pressure = p.pressure;
    q.timestamp = p.timestamp;
    q.position_timestamp = p.position_timestamp;
    q.track_timestamp = p.track_timestamp;
    q.heading_timestamp = p.heading_timestamp;
    q.last_type_code = p.last_type_code;
    q.last_df = p.last_df;
    q.adsb_version = p.adsb_version;
    q
}

/// Simulated passage of time: every public time stamp of the row moves `d` back.
pub fn shift_back(p: &mut Plane, d: Duration) {
    p.timestamp -= d;
    p.cpr_time[0] -= d;
    p.cpr_time[1] -= d;
    if let Some(t) = p.position_timestamp.as_mut() {
        *t -= d;
    }
    if let Some(t) = p.track_timestamp.as_mut() {
        *t -= d;
    }
    if let Some(t) = p.heading_timestamp.as_mut() {
        *t -= d;
    }
    if let Some(t) = p.bds_5_0_timestamp.as_mut() {
        *t -= d;
    }
}
