//! Exhaustive sweeps that are too large to log event by event.  Each is executed against the real
//! public API and reduced by a semantics-free transform (run-length encoding of a result, XOR of
//! two integers, list of accepted variants); the reduced form is judged by TLC.

use serde_json::{Value, json};
use squitterator::{DF, Downlink, Plane, get_downlink_format, get_icao, get_message};
use std::fs::File;
use std::io::{BufWriter, Write};
use std::panic::{AssertUnwindSafe, catch_unwind};
use std::thread;

const N24: u32 = 1 << 24;
const THREADS: u32 = 16;

fn rle_merge(parts: Vec<Vec<(u32, u32, i64)>>) -> Vec<(u32, u32, i64)> {
    let mut out: Vec<(u32, u32, i64)> = vec![];
    for p in parts {
        for r in p {
            if let Some(l) = out.last_mut() {
                if l.2 == r.2 && l.1 + 1 == r.0 {
                    l.1 = r.1;
                    continue;
                }
            }
            out.push(r);
        }
    }
    out
}

fn nibs(v: &Value) -> Result<Vec<u32>, String> {
    v.as_array()
        .ok_or("nib must be an array")?
        .iter()
        .map(|x| x.as_u64().filter(|&n| n < 16).map(|n| n as u32).ok_or("bad nibble".to_string()))
        .collect()
}

fn set_field(frame: &mut [u32], first_bit: usize, nbits: usize, v: u32) {
    // bit 1 = most significant bit of nibble 0
    for k in 0..nbits {
        let bit = (v >> (nbits - 1 - k)) & 1;
        let pos = first_bit - 1 + k;
        let (n, b) = (pos / 4, 3 - (pos % 4));
        frame[n] = (frame[n] & !(1 << b)) | (bit << b);
    }
}

/// For each case: iterate a 24-bit field (AP = last 24 bits, AA = bits 9..32) over all 2^24 values
/// `v`, call the public `get_icao`, and log the run-length encoding of `get_icao(frame(v)) XOR v`
/// (`None`, i.e. dropped, is logged as -1; a panic as -2).
pub fn icao_sweep(spec: &str, out: &str) -> Result<(), String> {
    let spec: Value = serde_json::from_reader(File::open(spec).map_err(|e| e.to_string())?).map_err(|e| e.to_string())?;
    let mut w = BufWriter::new(File::create(out).map_err(|e| e.to_string())?);
    let mut idx = 0u64;
    for c in spec["cases"].as_array().ok_or("no cases")? {
        idx += 1;
        let base = nibs(&c["nib"])?;
        let field = c["field"].as_str().unwrap_or("ap").to_string();
        let len = base.len() * 4;
        let first = if field == "aa" { 9 } else { len - 23 };
        let step = c["step"].as_u64().unwrap_or(1) as u32;
        let mut hs = vec![];
        for t in 0..THREADS {
            let base = base.clone();
            hs.push(thread::spawn(move || {
                let mut runs: Vec<(u32, u32, i64)> = vec![];
                let lo = (N24 / THREADS) * t;
                let hi = (N24 / THREADS) * (t + 1);
                let mut f = base.clone();
                let mut v = lo;
                while v < hi {
                    if v % step == 0 {
                        set_field(&mut f, first, 24, v);
                        let r = catch_unwind(AssertUnwindSafe(|| {
                            get_downlink_format(&f).and_then(|df| get_icao(&f, df))
                        }));
                        let x: i64 = match r {
                            Ok(Some(a)) => (a ^ v) as i64,
                            Ok(None) => -1,
                            Err(_) => -2,
                        };
                        match runs.last_mut() {
                            Some(l) if l.2 == x && l.1 + step == v => l.1 = v,
                            _ => runs.push((v, v, x)),
                        }
                    }
                    v += 1;
                }
                runs
            }));
        }
        let parts: Vec<_> = hs.into_iter().map(|h| h.join().map_err(|_| "thread".to_string())).collect::<Result<_, _>>()?;
        // merge across thread boundaries (adjacent by `step`)
        let mut merged: Vec<(u32, u32, i64)> = vec![];
        for p in parts {
            for r in p {
                if let Some(l) = merged.last_mut() {
                    if l.2 == r.2 && l.1 + step == r.0 {
                        l.1 = r.1;
                        continue;
                    }
                }
                merged.push(r);
            }
        }
        let ev = json!({
            "e": "icaosweep", "i": idx, "id": c["id"], "nib": base, "field": field, "step": step,
            "nruns": merged.len(),
            "runs": merged.iter().take(2000).map(|r| json!([r.0, r.1, r.2])).collect::<Vec<_>>(),
        });
        serde_json::to_writer(&mut w, &ev).map_err(|e| e.to_string())?;
        w.write_all(b"\n").map_err(|e| e.to_string())?;
    }
    w.flush().map_err(|e| e.to_string())
}

/// Run-length encoding of `row.reg` of a row created (public constructor) for every address.
pub fn country(out: &str) -> Result<(), String> {
    let mut w = BufWriter::new(File::create(out).map_err(|e| e.to_string())?);
    // both public constructors: from_message, and from_downlink (the one the reader uses) with a decoded DF18 frame,
    // a format for which the decoded downlink carries no address of its own
    for (idx, ctor) in ["from_message", "from_downlink"].iter().enumerate() {
        let ev = country_pass(idx == 1)?;
        let ev = json!({"e": "country", "i": idx + 1, "n": N24, "ctor": ctor, "runs": ev});
        serde_json::to_writer(&mut w, &ev).map_err(|e| e.to_string())?;
        w.write_all(b"\n").map_err(|e| e.to_string())?;
    }
    w.flush().map_err(|e| e.to_string())
}

fn country_pass(via_downlink: bool) -> Result<Vec<Value>, String> {
    let msg: Vec<u32> = vec![5, 13, 0, 0, 0, 0, 0, 0, 0, 0, 0, 0, 0, 0]; // DF11 shape; content irrelevant
    let msg18: Vec<u32> = vec![9, 0, 4, 8, 4, 0, 13, 6, 2, 0, 2, 12, 12, 3, 7, 1, 12, 3, 2, 12, 14, 0, 5, 7, 6, 0, 9, 8];
    let mut hs = vec![];
    for t in 0..THREADS {
        let msg = msg.clone();
        let msg18 = msg18.clone();
        hs.push(thread::spawn(move || {
            let mut runs: Vec<(u32, u32, &'static str)> = vec![];
            let lo = (N24 / THREADS) * t;
            let hi = (N24 / THREADS) * (t + 1);
            let dl = DF::from_message(&msg18).ok();
            for a in lo..hi {
                let p = match (&dl, via_downlink) {
                    (Some(d), true) => Plane::from_downlink(d, a),
                    _ => Plane::from_message(&msg, 11, a, false),
                };
                match runs.last_mut() {
                    Some(l) if l.2 == p.reg && l.1 + 1 == a => l.1 = a,
                    _ => runs.push((a, a, p.reg)),
                }
            }
            runs
        }));
    }
    let mut merged: Vec<(u32, u32, &'static str)> = vec![];
    for h in hs {
        for r in h.join().map_err(|_| "thread".to_string())? {
            if let Some(l) = merged.last_mut() {
                if l.2 == r.2 && l.1 + 1 == r.0 {
                    l.1 = r.1;
                    continue;
                }
            }
            merged.push(r);
        }
    }
    Ok(merged.iter().map(|r| json!({"lo": r.0, "hi": r.1, "reg": r.2})).collect::<Vec<_>>())
}

/// Burst sweep for C04: for a base squitter (hex text), every burst error pattern of length
/// 1..=maxlen (first and last bit of the burst flipped, all 2^(L-2) interiors) at every start
/// position such that the burst stays inside bits lo..=hi is applied and the corrupted line is
/// given to the public `get_message`; the XOR masks of accepted variants are logged (capped),
/// together with the counts.
pub fn burst(spec: &str, out: &str, _workdir: &str) -> Result<(), String> {
    let spec: Value = serde_json::from_reader(File::open(spec).map_err(|e| e.to_string())?).map_err(|e| e.to_string())?;
    let mut w = BufWriter::new(File::create(out).map_err(|e| e.to_string())?);
    let mut idx = 0u64;
    for c in spec["cases"].as_array().ok_or("no cases")? {
        idx += 1;
        let base = nibs(&c["nib"])?;
        let maxlen = c["maxlen"].as_u64().unwrap_or(12) as usize;
        let lo = c["lo"].as_u64().unwrap_or(6) as usize;
        let hi = c["hi"].as_u64().unwrap_or((base.len() * 4) as u64) as usize;
        let cap = 200usize;
        let mut hs = vec![];
        for t in 0..THREADS as usize {
            let base = base.clone();
            hs.push(thread::spawn(move || {
                let mut tried: u64 = 0;
                let mut acc: u64 = 0;
                let mut panics: u64 = 0;
                let mut accepted: Vec<(usize, usize, u64)> = vec![];
                let mut s = String::with_capacity(base.len());
                for l in 1..=maxlen {
                    let interiors: u64 = if l <= 2 { 1 } else { 1u64 << (l - 2) };
                    for start in lo..=hi {
                        if start + l - 1 > hi {
                            break;
                        }
                        if (start + l) % (THREADS as usize) != t {
                            continue;
                        }
                        for k in 0..interiors {
                            // pattern bits: position 0 and l-1 set, interior from k
                            let pat: u64 = if l == 1 { 1 } else { (1u64 << (l - 1)) | (k << 1) | 1 };
                            let mut f = base.clone();
                            for j in 0..l {
                                if (pat >> (l - 1 - j)) & 1 == 1 {
                                    let pos = start - 1 + j;
                                    f[pos / 4] ^= 1 << (3 - (pos % 4));
                                }
                            }
                            s.clear();
                            for n in &f {
                                s.push(char::from_digit(*n, 16).unwrap().to_ascii_uppercase());
                            }
                            tried += 1;
                            match catch_unwind(AssertUnwindSafe(|| get_message(&s))) {
                                Ok(Some(_)) => {
                                    acc += 1;
                                    if accepted.len() < cap {
                                        accepted.push((start, l, pat));
                                    }
                                }
                                Ok(None) => {}
                                Err(_) => panics += 1,
                            }
                        }
                    }
                }
                (tried, acc, panics, accepted)
            }));
        }
        let (mut tried, mut acc, mut panics, mut accepted) = (0u64, 0u64, 0u64, vec![]);
        for h in hs {
            let r = h.join().map_err(|_| "thread".to_string())?;
            tried += r.0;
            acc += r.1;
            panics += r.2;
            accepted.extend(r.3);
        }
        accepted.sort();
        accepted.truncate(cap);
        let ev = json!({
            "e": "burst", "i": idx, "id": c["id"], "nib": base, "maxlen": maxlen, "lo": lo, "hi": hi,
            "tried": crate::proj::clamp(tried as i64), "tried_k": tried / 1000,
            "accepted": crate::proj::clamp(acc as i64), "panics": crate::proj::clamp(panics as i64),
            "acc": accepted.iter().map(|a| json!({"start": a.0, "len": a.1, "pat": crate::proj::clamp(a.2 as i64)})).collect::<Vec<_>>(),
        });
        serde_json::to_writer(&mut w, &ev).map_err(|e| e.to_string())?;
        w.write_all(b"\n").map_err(|e| e.to_string())?;
    }
    let _ = rle_merge;
    w.flush().map_err(|e| e.to_string())
}
