//! `sqv print`: builds `Plane` rows through their public fields from JSON (the inverse of
//! `proj`, with time stamps given as ages in ms) and prints them with the real `LegendHeaders`
//! and `Planes::print`.  Output goes to stdout, delimited per case; the caller captures it.

use chrono::{Duration, Utc};
use clap::Parser;
use serde_json::Value;
use squitterator::{Args, DisplayFlags, LegendHeaders, Plane, Planes};
use std::fs::File;
use std::io::{BufRead, BufReader, Write};

fn ou(v: &Value) -> Option<u32> {
    v.as_array().and_then(|a| a.first()).and_then(|x| x.as_u64()).map(|x| x as u32)
}
fn oi(v: &Value) -> Option<i32> {
    v.as_array().and_then(|a| a.first()).and_then(|x| x.as_i64()).map(|x| x as i32)
}
fn of(v: &Value, scale: f64) -> Option<f64> {
    v.as_array().and_then(|a| a.first()).and_then(|x| x.as_i64()).map(|x| x as f64 / scale)
}
fn ch(v: &Value) -> char {
    v.as_u64().and_then(|x| char::from_u32(x as u32)).unwrap_or(' ')
}
fn text(v: &Value) -> String {
    v.as_array()
        .map(|a| a.iter().filter_map(|x| x.as_u64().and_then(|c| char::from_u32(c as u32))).collect())
        .unwrap_or_default()
}

// reg is &'static str in Plane: leak the few distinct strings the cases use
fn leak(s: String) -> &'static str {
    Box::leak(s.into_boxed_str())
}

pub fn unproj(r: &Value) -> Plane {
    let now = Utc::now();
    let age = |v: &Value| now - Duration::milliseconds(v.as_i64().unwrap_or(0));
    let oage = |v: &Value| {
        v.as_array().and_then(|a| a.first()).and_then(|x| x.as_i64()).map(|x| now - Duration::milliseconds(x))
    };
    let mut p = Plane::new();
    p.icao = r["a"].as_u64().unwrap_or(0) as u32;
    p.capability.0 = r["ca"].as_u64().unwrap_or(0) as u32;
    if let Some(c) = r["caps"].as_array() {
        p.capability.1.flags = c[0].as_u64().unwrap_or(0) as u32;
        p.capability.1.bds20 = c[1].as_u64().unwrap_or(0) != 0;
        p.capability.1.bds40 = c[2].as_u64().unwrap_or(0) != 0;
        p.capability.1.bds44 = c[3].as_u64().unwrap_or(0) != 0;
        p.capability.1.bds50 = c[4].as_u64().unwrap_or(0) != 0;
        p.capability.1.bds60 = c[5].as_u64().unwrap_or(0) != 0;
    }
    if let Some(c) = r["cat"].as_array() {
        p.category = (c[0].as_u64().unwrap_or(0) as u32, c[1].as_u64().unwrap_or(0) as u32);
    }
    p.reg = leak(r["reg"].as_str().unwrap_or("").to_string());
    p.ais = r["cs"].as_array().and_then(|a| a.first()).map(text);
    p.altitude = ou(&r["alt"]);
    p.altitude_gnss = ou(&r["altg"]);
    p.altitude_source = ch(&r["alts"]);
    p.selected_altitude = ou(&r["sel"]);
    p.barometric_pressure_setting = ou(&r["baro"]);
    p.target_altitude_source = ch(&r["sels"]);
    p.squawk = ou(&r["sq"]);
    p.surveillance_status = ch(&r["ss"]);
    p.threat_encounter = r["thr"].as_array().and_then(|a| a.first()).map(ch);
    p.vrate = oi(&r["vr"]);
    p.vrate_source = ch(&r["vrs"]);
    p.lat = r["lat"].as_i64().unwrap_or(0) as f64 / 1e6;
    p.lon = r["lon"].as_i64().unwrap_or(0) as f64 / 1e6;
    p.distance_from_observer = of(&r["dist"], 1000.0);
    p.grspeed = ou(&r["gs"]);
    p.true_airspeed = ou(&r["tas"]);
    p.indicated_airspeed = ou(&r["ias"]);
    p.mach_number = of(&r["mach"], 1000.0);
    p.ground_movement = of(&r["gm"], 1000.0);
    p.track = ou(&r["trk"]);
    p.track_source = ch(&r["trks"]);
    p.heading = ou(&r["hdg"]);
    p.heading_source = ch(&r["hdgs"]);
    p.roll_angle = oi(&r["roll"]);
    p.track_angle_rate = oi(&r["tar"]);
    p.temperature = of(&r["temp"], 100.0);
    p.wind = r["wind"]
        .as_array()
        .and_then(|a| a.first())
        .and_then(|w| w.as_array())
        .map(|w| (w[0].as_u64().unwrap_or(0) as u32, w[1].as_u64().unwrap_or(0) as u32));
    p.turbulence = ou(&r["turb"]);
    p.humidity = ou(&r["hum"]);
    p.pressure = ou(&r["pres"]);
    p.timestamp = age(&r["ts"]);
    p.position_timestamp = oage(&r["pts"]);
    p.track_timestamp = oage(&r["tts"]);
    p.heading_timestamp = oage(&r["hts"]);
    p.last_type_code = r["ltc"].as_u64().unwrap_or(0) as u32;
    p.last_df = r["ldf"].as_u64().unwrap_or(0) as u32;
    p.adsb_version = ou(&r["ver"]);
    p
}

pub fn print_cases(path: &str) -> Result<(), String> {
    let inp = BufReader::new(File::open(path).map_err(|e| format!("{}: {}", path, e))?);
    for line in inp.lines() {
        let line = line.map_err(|e| e.to_string())?;
        if line.trim().is_empty() {
            continue;
        }
        let c: Value = serde_json::from_str(&line).map_err(|e| e.to_string())?;
        let id = c["id"].as_u64().unwrap_or(0);
        let flags = c["i"].as_str().unwrap_or("");
        let order = c["o"].as_str().unwrap_or("");
        let mut argv = vec!["squitterator".to_string(), format!("--display-info={}", flags)];
        argv.push(format!("--order-by={}", order));
        if let Some(extra) = c.get("argv").and_then(|a| a.as_array()) {
            argv.extend(extra.iter().filter_map(|x| x.as_str().map(String::from)));
        }
        let args = Args::try_parse_from(argv).map_err(|e| format!("case {}: {}", id, e.kind()))?;
        let display_flags = DisplayFlags::from_arg_str(&args.display_info.concat());
        let headers = LegendHeaders::from_display_flags(&display_flags);
        let planes = Planes::new();
        if let Some(rows) = c["rows"].as_array() {
            let mut g = planes.aircrafts.write().map_err(|_| "lock")?;
            for r in rows {
                let key = r.get("key").and_then(|k| k.as_u64()).unwrap_or(r["a"].as_u64().unwrap_or(0)) as u32;
                g.insert(key, unproj(r));
            }
        }
        println!("@@CASE {}", id);
        headers.print_header();
        headers.print_separator();
        planes.print(&args, &display_flags);
        println!("@@END {}", id);
        std::io::stdout().flush().ok();
    }
    Ok(())
}
