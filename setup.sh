#!/bin/sh
# Offline setup: build the harness in both profiles and syntax-check the specification.
set -e
cd "$(dirname "$0")"
export CARGO_NET_OFFLINE=true
(cd harness && cargo build --offline --quiet 2>/dev/null && cargo build --offline --quiet --release 2>/dev/null)
JT="$(pwd)/.work/setup-jtmp"
mkdir -p "$JT"
for m in Bits ModeS Cpr CommB Squitterator TraceCheck Tcp Refresh Dlog; do
  (cd spec && java -Djava.io.tmpdir="$JT" -cp /opt/veriftools/tla/tla2tools.jar:/opt/veriftools/tla/CommunityModules-deps.jar tla2sany.SANY $m.tla >/dev/null) || { echo "SANY failed on $m"; rm -rf "$JT"; exit 1; }
done
rm -rf "$JT"
echo setup ok
