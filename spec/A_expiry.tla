------------------------------ MODULE A_expiry ------------------------------
(* Alphabet of the expiry group (C12): three aircraft, constant payloads so  *)
(* that rows differ only in their age; C is the "filler" whose frames drive  *)
(* the sweep counter.                                                        *)
EXTENDS ModeS, Cpr, CommB
A == 4219421
B == 11184810
C == 5592405      \* 555555
Alpha ==
  << MkShort(4, 0, EncAlt13(30000), A),                                \* 1  A, DF4
     MkDF17(5, A, MeIdent(4, 3, <<1, 2, 3, 48, 49, 32, 32, 32>>)),     \* 2  A, DF17 (another format refreshes as well)
     MkShort(5, 0, EncSquawk(1, 2, 3, 4), B),                          \* 3  B, DF5
     MkDF11(5, C, 0),                                                  \* 4  C, DF11 (filler)
     MkLong(20, 0, EncAlt13(31000), Mb17(1, 1, 1, 1), B) >>            \* 5  B, DF20
=============================================================================
