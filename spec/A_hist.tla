------------------------------- MODULE A_hist -------------------------------
(***************************************************************************)
(* Frame alphabet of the history group, written with the encoders of       *)
(* ModeS / CommB / Cpr (so the frames are defined in TLA+).  tools/        *)
(* genalpha.py evaluates it once with TLC and writes the literal form      *)
(* L_hist.tla, which the model uses; MC_hist ASSUMEs that both agree.      *)
(***************************************************************************)
EXTENDS ModeS, Cpr, CommB

A == 4219421      \* 40621D
B == 11184810     \* AAAAAA
PosE == CprEncode(5225720, 391937, 0)
PosO == CprEncode(5226578, 393891, 1)
Alpha ==
  << MkShort(4, 0, EncAlt13(30000), A),                                  \*  1 altitude
     MkShort(4, 0, EncAlt13(-500), A),                                   \*  2 altitude code below zero: no value
     MkShort(5, 0, EncSquawk(1, 2, 3, 4), A),                            \*  3 squawk
     MkShort(5, 0, EncSquawk(7, 7, 0, 0), A),                            \*  4 squawk
     MkDF11(5, A, 0),                                                    \*  5 capability 5
     MkDF11(0, A, 3),                                                    \*  6 capability 0, II = 3
     MkDF17(5, A, MeIdent(4, 3, <<1, 2, 3, 48, 49, 32, 32, 32>>)),       \*  7 callsign ABC01, category 4/3
     MkDF17(5, A, MeIdent(1, 0, <<24, 25, 26, 32, 32, 32, 32, 32>>)),    \*  8 callsign XYZ, category 1/0
     MkDF17(5, A, MeAirPos(11, 1, EncAlt12(38000), 0, PosE[1], PosE[2])),\*  9 even position, alt 38000, SS = P
     MkDF17(5, A, MeAirPos(11, 0, EncAlt12(38025), 1, PosO[1], PosO[2])),\* 10 odd position
     MkDF17(5, A, MeVelocity(1, 1, 9, 1, 160, 1, 14)),                   \* 11 velocity: 8 kt W, 159 kt S, -832 ft/min
     MkDF17(5, A, MeVelocity(1, 0, 0, 0, 0, 0, 0)),                      \* 12 velocity: no information
     MkDF17(5, A, MeSurface(7, 20, 1, 40, 0, PosE[1], PosE[2])),         \* 13 surface position: blanks the altitude
     MkDF17(5, A, MeOpStatus(2)),                                        \* 14 ADS-B version 2
     MkDF17(5, A, MeGnssPos(20, 2, 1000, 0, PosE[1], PosE[2])),          \* 15 GNSS-height position: SS = T
     MkLong(20, 0, EncAlt13(31000), Mb20(<<11, 12, 13, 49, 48, 50, 51, 32>>), A),  \* 16 BDS 2,0 KLM1023, altitude 31000
     MkLong(21, 0, EncSquawk(2, 0, 0, 0), Mb17(1, 1, 1, 1), A),          \* 17 BDS 1,7, squawk 2000
     MkLong(20, 0, EncAlt13(31000), Mb50(12, 650, 219, -4, 212), A),     \* 18 BDS 5,0 (left turn)
     MkLong(20, 0, EncAlt13(31025), Mb60(300, 250, 200, -60, -60), A),   \* 19 BDS 6,0
     MkShort(0, 0, EncAlt13(30000), A),                                  \* 20 DF0: carries nothing the table shows
     MkDF18(2, A, MeIdent(2, 1, <<7, 18, 4, 32, 32, 32, 32, 32>>)),      \* 21 DF18: unconstrained content
     MkShort(4, 0, EncAlt13(12000), B),                                  \* 22 other aircraft
     MkShort(5, 0, EncSquawk(0, 0, 2, 1), B),                            \* 23 other aircraft
     MkDF17(5, 0, MeIdent(4, 3, <<1, 2, 3, 48, 49, 32, 32, 32>>)) >>     \* 24 address zero: dropped
=============================================================================
