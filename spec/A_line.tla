------------------------------- MODULE A_line -------------------------------
(* Alphabet of the line group (C01, C02, C13): accepted frames of two aircraft and the ways a line can fail *)
(* to be a frame: wrong digit counts, length / DF disagreement, failing parity, address zero.               *)
EXTENDS ModeS, Cpr, CommB
A == 4735190      \* 4840D6
B == 3957070      \* 3C614E
Good17 == MkDF17(5, A, MeIdent(4, 1, <<11, 12, 13, 49, 48, 50, 51, 32>>))
Good4 == MkShort(4, 0, EncAlt13(30000), A)
Flip(f, i) == [f EXCEPT ![i] = XorI(@, 1)]
Alpha ==
  << Good17,                                               \*  1 accepted DF17
     Good4,                                                \*  2 accepted DF4
     MkDF11(5, B, 0),                                      \*  3 accepted DF11 of another aircraft
     MkShort(5, 0, EncSquawk(7, 7, 0, 0), B),              \*  4 accepted DF5
     SubSeq(Good17, 1, 27),                                \*  5 27 digits
     Good17 \o <<0>>,                                      \*  6 29 digits
     SubSeq(Good17, 1, 14),                                \*  7 14 digits claiming DF17 (length / DF disagreement)
     Good4 \o Good4,                                       \*  8 28 digits claiming DF4
     Flip(Good17, 20),                                     \*  9 DF17 with failing parity
     Flip(MkDF11(5, B, 0), 9),                             \* 10 DF11 with failing parity (upper 17 bits)
     MkDF11(5, B, 77),                                     \* 11 DF11 with interrogator code 77: accepted
     <<>>,                                                 \* 12 empty line
     <<1, 2, 3>>,                                          \* 13 three digits
     MkShort(4, 0, EncAlt13(30000), 0),                    \* 14 address zero: dropped
     MkDF17(5, 0, MeIdent(4, 1, <<1, 1, 1, 1, 1, 1, 1, 1>>)) >>   \* 15 DF17 with AA = 0: dropped
=============================================================================
