-------------------------------- MODULE Bits --------------------------------
(***************************************************************************)
(* Integer helpers for the Mode S oracle.  TLC integers are 32-bit, so     *)
(* everything here is arranged to stay below 2^31.  A frame is a sequence  *)
(* of nibbles (values 0..15); bit 1 is the most significant bit of the     *)
(* first nibble (the numbering of ICAO Annex 10 and of rec/ruler.txt).     *)
(***************************************************************************)
EXTENDS Integers, Sequences, Bitwise

Pow2(n) == 2^n

Abs(x) == IF x < 0 THEN -x ELSE x
Max(a, b) == IF a >= b THEN a ELSE b
Min(a, b) == IF a <= b THEN a ELSE b
Sign(x) == IF x < 0 THEN -1 ELSE IF x > 0 THEN 1 ELSE 0

\* floor division and non-negative modulus for a possibly negative numerator
FloorDiv(a, b) == IF a >= 0 THEN a \div b ELSE -((-a + b - 1) \div b)
PMod(a, b) == a - b * FloorDiv(a, b)

Bit(f, i) == (f[((i - 1) \div 4) + 1] \div Pow2(3 - ((i - 1) % 4))) % 2

\* value of nibbles a..b of f as one number (at most 7 nibbles)
RECURSIVE NibVal(_, _, _, _)
NibVal(f, a, b, acc) == IF a > b THEN acc ELSE NibVal(f, a + 1, b, acc * 16 + f[a])

\* bits sb..eb (1-based, inclusive, at most 24 bits) as an unsigned number
Field(f, sb, eb) ==
  LET na == ((sb - 1) \div 4) + 1
      nb == ((eb - 1) \div 4) + 1
      v  == NibVal(f, na, nb, 0)
  IN  (v \div Pow2(4 * nb - eb)) % Pow2(eb - sb + 1)

XorI(a, b) == a ^^ b

(***************************************************************************)
(* MulDiv(a, b, c) = floor(a*b/c) for 0 <= a, 0 <= b < 2^31, 0 < c,        *)
(* c < 7*10^8 (so that 2*r + ra < 2^31 with r, ra < c), without ever       *)
(* forming a*b: schoolbook double-and-add over the bits of b with a        *)
(* running remainder.                                                      *)
(***************************************************************************)
RECURSIVE MulDivR(_, _, _, _, _, _)
MulDivR(ra, b, c, k, q, r) ==
  IF k = 0 THEN q
  ELSE LET bit == (b \div Pow2(k - 1)) % 2
           r0  == 2 * r + bit * ra
       IN  MulDivR(ra, b, c, k - 1, 2 * q + (r0 \div c), r0 % c)

MulDiv(a, b, c) == (a \div c) * b + MulDivR(a % c, b, c, 31, 0, 0)

(***************************************************************************)
(* MulLe(a, b, c, d) = (a*b <= c*d) for 0 <= a, c < 2^15 and               *)
(* 0 <= b, d < 2^31, via two 15-bit limbs of b and d.                      *)
(***************************************************************************)
Limb(a, b) == LET lo == a * (b % 32768)
                  hi == a * (b \div 32768) + (lo \div 32768)
              IN  <<hi, lo % 32768>>
MulLe(a, b, c, d) == LET x == Limb(a, b)  y == Limb(c, d)
                     IN  x[1] < y[1] \/ (x[1] = y[1] /\ x[2] <= y[2])

\* integer square root, n < 2^31
RECURSIVE ISqrtR(_, _, _)
ISqrtR(n, lo, hi) == IF lo >= hi THEN lo
                     ELSE LET mid == (lo + hi + 1) \div 2
                          IN  IF mid * mid <= n THEN ISqrtR(n, mid, hi) ELSE ISqrtR(n, lo, mid - 1)
ISqrt(n) == ISqrtR(n, 0, 46340)

\* set of elements of a sequence
ToSet(s) == {s[i] : i \in 1..Len(s)}

\* optional values are sequences of length 0 or 1
None == <<>>
Some(v) == <<v>>
IsSome(o) == Len(o) = 1

\* self checks, evaluated once at start-up
ASSUME MulDiv(123456, 1000000, 777) = 158888030
ASSUME MulDiv(65536, 360000000, 7864320) = 3000000
ASSUME MulDiv(131071, 360000000, 7733248) = 6101648
ASSUME MulLe(1023, 1073741824, 1023, 1073741824)
ASSUME ~MulLe(1023, 1073741824, 1022, 1073741824)
ASSUME MulLe(957, 543516287, 598, 869856389)   \* 520145086659 <= 520174120622
ASSUME ISqrt(1023 * 1023 + 1023 * 1023) = 1446
ASSUME ISqrt(0) = 0 /\ ISqrt(1) = 1 /\ ISqrt(3) = 1 /\ ISqrt(4) = 2 /\ ISqrt(2147395600) = 46340
ASSUME Field(<<8, 13, 4, 0, 6, 2, 1, 13>>, 1, 5) = 17
ASSUME Field(<<8, 13, 4, 0, 6, 2, 1, 13>>, 9, 32) = 4219421
ASSUME FloorDiv(-1, 2) = -1 /\ PMod(-1, 60) = 59 /\ FloorDiv(-4, 2) = -2
=============================================================================
