-------------------------------- MODULE CommB --------------------------------
(***************************************************************************)
(* Comm-B registers (ICAO Doc 9871) carried in the MB field of DF20/21.    *)
(* MB bit n is frame bit n + 32.  Validity comes in two strengths, used    *)
(* for the two directions of C10:                                          *)
(*   Liberal: a necessary condition for "this MB is register X" - used     *)
(*            where the property says "changes ONLY IF ...";               *)
(*   Strict : a sufficient condition - used where it says "IS decoded".    *)
(* Decoded values are exact rationals; IntNear accepts any integer within  *)
(* less than 1 of them (floor, truncation and rounding all pass).          *)
(***************************************************************************)
EXTENDS Bits

MBit(f, n) == Bit(f, n + 32)
MField(f, a, b) == Field(f, a + 32, b + 32)
MZero(f, a, b) == \* bits a..b of MB all zero (any width)
  \A n \in a..b : MBit(f, n) = 0

BdsByte(f) == MField(f, 1, 8)
Explicit(f) == BdsByte(f) \in {16, 32, 48}       \* 0x10, 0x20, 0x30: registers that carry their own code

\* v is an integer within < 1 of num/den  (den > 0)
IntNear(v, num, den) == Abs(den * v - num) < den
\* same on the circle of 360 degrees
IntNear360(v, num, den) == \E k \in {-1, 0, 1} : Abs(den * (v + 360 * k) - num) < den

(****************************** BDS 1,7 ***********************************)
Valid17L(f) == MZero(f, 29, 56)
Valid17S(f) == MZero(f, 29, 56) /\ MBit(f, 7) = 1 /\ ~Explicit(f)
Caps17(f) == [b40 |-> MBit(f, 9), b50 |-> MBit(f, 16), b60 |-> MBit(f, 24)]

(****************************** BDS 4,0 ***********************************)
Valid40L(f) == MBit(f, 1) = 1 /\ MBit(f, 14) = 1 /\ MBit(f, 27) = 1 /\ MZero(f, 40, 47) /\ MZero(f, 52, 53)
Valid40S(f) == Valid40L(f) /\ MBit(f, 48) = 1 /\ MBit(f, 54) = 1
Mcp40(f) == 16 * MField(f, 2, 13)
Fms40(f) == 16 * MField(f, 15, 26)
BaroRaw40(f) == MField(f, 28, 39)                \* 0.1 mb above 800 mb
NonZero40(f) == MField(f, 2, 13) # 0 /\ MField(f, 15, 26) # 0 /\ BaroRaw40(f) # 0
SelOK40(f, v) == v = Mcp40(f) \/ v = Fms40(f)
BaroOK40(f, v) == IntNear(v, BaroRaw40(f) + 8000, 10)

(****************************** BDS 5,0 ***********************************)
Valid50L(f) == MBit(f, 1) = 1 /\ MBit(f, 12) = 1 /\ MBit(f, 24) = 1 /\ MBit(f, 35) = 1 /\ MBit(f, 46) = 1
Valid50S(f) == Valid50L(f)
RollS50(f) == MField(f, 3, 11) - 512 * MBit(f, 2)            \* units 45/256 degree
TrackU50(f) == MField(f, 14, 23) + 1024 * MBit(f, 13)        \* units 90/512 degree, 0..2047 = [0,360)
Gs50(f) == 2 * MField(f, 25, 34)
TarS50(f) == MField(f, 37, 45) - 512 * MBit(f, 36)           \* units 8/256 degree/s
Tas50(f) == 2 * MField(f, 47, 56)
NonZero50(f) == MField(f, 3, 11) # 0 /\ MField(f, 14, 23) # 0 /\ MField(f, 25, 34) # 0
                /\ MField(f, 37, 45) # 0 /\ MField(f, 47, 56) # 0
Plausible50(f) == Abs(45 * RollS50(f)) <= 50 * 256 /\ Gs50(f) <= 600 /\ Tas50(f) <= 500
                  /\ Abs(Gs50(f) - Tas50(f)) < 200
RollOK50(f, v) == IntNear(v, 45 * RollS50(f), 256)
TrackOK50(f, v) == IntNear360(v, 90 * TrackU50(f), 512)
TarOK50(f, v) == IntNear(v, 8 * TarS50(f), 256)

(****************************** BDS 6,0 ***********************************)
Valid60L(f) == MBit(f, 1) = 1 /\ MBit(f, 13) = 1 /\ MBit(f, 24) = 1 /\ MBit(f, 35) = 1 /\ MBit(f, 46) = 1
Valid60S(f) == Valid60L(f)
HdgU60(f) == MField(f, 3, 12) + 1024 * MBit(f, 2)            \* units 90/512 degree
Ias60(f) == MField(f, 14, 23)
MachMilli60(f) == 4 * MField(f, 25, 34)                      \* 0.004 per bit = 4 milli-Mach
BaroRate60(f) == 32 * (MField(f, 37, 45) - 512 * MBit(f, 36))
InerRate60(f) == 32 * (MField(f, 48, 56) - 512 * MBit(f, 47))
NonZero60(f) == MField(f, 3, 12) # 0 /\ MField(f, 14, 23) # 0 /\ MField(f, 25, 34) # 0
                /\ MField(f, 37, 45) # 0 /\ MField(f, 48, 56) # 0
Plausible60(f) == MachMilli60(f) <= 1000 /\ Abs(BaroRate60(f)) <= 6000 /\ Abs(InerRate60(f)) <= 6000
HdgOK60(f, v) == IntNear360(v, 90 * HdgU60(f), 512)
MachOK60(f, vMilli) == Abs(vMilli - MachMilli60(f)) <= 1
VRateOK60(f, v) == v = BaroRate60(f) \/ v = InerRate60(f)

(****************************** BDS 3,0 ***********************************)
Threat30(f) == MBit(f, 28) = 1 \/ MBit(f, 9) = 1             \* MTE, else first ARA bit

\* registers earlier in the fixed precedence 1,7 > 4,0 > 5,0 > 6,0 that the MB field also looks like
Earlier40(f) == Valid17L(f)
Earlier50(f) == Valid17L(f) \/ Valid40L(f)
Earlier60(f) == Valid17L(f) \/ Valid40L(f) \/ Valid50L(f)

(****************************** encoders **********************************)
\* two's complement of a signed value in n bits (sign bit first)
TwoC(v, n) == IF v >= 0 THEN v ELSE Pow2(n) + v
RECURSIVE NibsR(_, _, _)
NibsR(v, n, acc) == IF n = 0 THEN acc ELSE NibsR(v \div 16, n - 1, <<v % 16>> \o acc)
RECURSIVE BitsR(_, _, _)
BitsR(v, n, acc) == IF n = 0 THEN acc ELSE BitsR(v \div 2, n - 1, <<v % 2>> \o acc)
RECURSIVE CatB(_, _)
CatB(fields, i) == IF i > Len(fields) THEN <<>> ELSE BitsR(fields[i][1], fields[i][2], <<>>) \o CatB(fields, i + 1)
PackMB(fields) == LET b == CatB(fields, 1) IN [i \in 1..14 |-> 8 * b[4*i - 3] + 4 * b[4*i - 2] + 2 * b[4*i - 1] + b[4*i]]

Mb17(b20, b40, b50, b60) ==
  PackMB(<< <<0, 6>>, <<b20, 1>>, <<0, 1>>, <<b40, 1>>, <<0, 6>>, <<b50, 1>>, <<0, 7>>, <<b60, 1>>, <<0, 32>> >>)
\* mcp, fms in units of 16 ft; baro raw in 0.1 mb above 800
Mb40(mcp, fms, baro) ==
  PackMB(<< <<1, 1>>, <<mcp, 12>>, <<1, 1>>, <<fms, 12>>, <<1, 1>>, <<baro, 12>>, <<0, 8>>,
            <<1, 1>>, <<0, 3>>, <<0, 2>>, <<1, 1>>, <<0, 2>> >>)
\* roll (signed, 45/256 deg), track (0..2047, 90/512 deg), gs (2 kt), rate (signed, 8/256 deg/s), tas (2 kt)
Mb50(roll, trk, gs, tar, tas) ==
  PackMB(<< <<1, 1>>, <<TwoC(roll, 10), 10>>, <<1, 1>>, <<trk, 11>>, <<1, 1>>, <<gs, 10>>,
            <<1, 1>>, <<TwoC(tar, 10), 10>>, <<1, 1>>, <<tas, 10>> >>)
\* heading (0..2047), ias (kt), mach (0.004), baro rate (signed, 32 ft/min), inertial rate (signed)
Mb60(hdg, ias, mach, br, ir) ==
  PackMB(<< <<1, 1>>, <<hdg, 11>>, <<1, 1>>, <<ias, 10>>, <<1, 1>>, <<mach, 10>>,
            <<1, 1>>, <<TwoC(br, 10), 10>>, <<1, 1>>, <<TwoC(ir, 10), 10>> >>)
Mb20(ch) == PackMB(<< <<32, 8>>, <<ch[1], 6>>, <<ch[2], 6>>, <<ch[3], 6>>, <<ch[4], 6>>,
                      <<ch[5], 6>>, <<ch[6], 6>>, <<ch[7], 6>>, <<ch[8], 6>> >>)
\* ACAS RA report: ARA first bit, MTE
Mb30(ara1, mte) == PackMB(<< <<48, 8>>, <<ara1, 1>>, <<0, 13>>, <<0, 4>>, <<0, 1>>, <<mte, 1>>, <<0, 28>> >>)
=============================================================================
