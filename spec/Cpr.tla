--------------------------------- MODULE Cpr ---------------------------------
(***************************************************************************)
(* Exact global airborne CPR on the integer lattice (ICAO Annex 10 vol IV  *)
(* / DO-260B A.1.7).  Even fields y0,x0; odd fields y1,x1 (17 bits each);  *)
(* i = parity of the newer frame.  All latitudes are integer numerators    *)
(* on one of two lattices:                                                 *)
(*    even: units of 6/2^17 degree       odd: units of (360/59)/2^17       *)
(* and the NL zone thresholds TE / TO (generated from the closed-form NL   *)
(* formula) are the smallest numerators at or above each zone boundary.    *)
(* All boundaries except 87 degrees are irrational, so no lattice point    *)
(* ties with them; |lat| >= 87 is outside the scope of C08.                *)
(***************************************************************************)
EXTENDS Bits, CprTab, Trig

P17 == 131072
NoPos == <<>>

\* zone number of a non-negative lattice numerator: first nl from 59 down whose threshold exceeds it
RECURSIVE NLofR(_, _, _)
NLofR(n, T, nl) == IF nl < 2 THEN 1 ELSE IF n < T[nl - 1] THEN nl ELSE NLofR(n, T, nl - 1)
NLof(n, T) == NLofR(n, T, 59)

\* micro-degrees of num * 360 / den degrees (floor towards zero)
MicroDeg(num, den) == Sign(num) * MulDiv(Abs(num), 360000000, den)

CprJ(y0, y1) == FloorDiv(2 * (59 * y0 - 60 * y1) + P17, 2 * P17)
\* latitude numerators of the two frames, reduced to (-90, 90] style range
LatNumE(y0, y1) == LET a == PMod(CprJ(y0, y1), 60) * P17 + y0 IN IF a >= 45 * P17 THEN a - 60 * P17 ELSE a
LatNumO(y0, y1) == LET a == PMod(CprJ(y0, y1), 59) * P17 + y1 IN IF 4 * a >= 177 * P17 THEN a - 59 * P17 ELSE a

\* result: NoPos, or <<lat, lon>> in micro-degrees (each floor towards zero of the exact rational)
CprDecode(y0, x0, y1, x1, i) ==
  LET n0  == LatNumE(y0, y1)
      n1  == LatNumO(y0, y1)
      nl0 == NLof(Abs(n0), TE)
      nl1 == NLof(Abs(n1), TO)
      ni  == Max(nl0 - i, 1)
      m   == FloorDiv(2 * (x0 * (nl0 - 1) - x1 * nl0) + P17, 2 * P17)
      la  == PMod(m, ni) * P17 + (IF i = 1 THEN x1 ELSE x0)
      l   == IF 2 * la >= ni * P17 THEN la - ni * P17 ELSE la
  IN  IF Abs(n0) > 15 * P17 \/ 4 * Abs(n1) > 59 * P17 \/ nl0 # nl1 THEN NoPos
      ELSE << IF i = 1 THEN MicroDeg(n1, 59 * P17) ELSE MicroDeg(n0, 60 * P17),
              MicroDeg(l, ni * P17) >>

\* is the pair inside the scope of C08 (|lat| < 87 on both lattices)?
CprInScope(y0, y1) == Abs(LatNumE(y0, y1)) < TE[1] /\ Abs(LatNumO(y0, y1)) < TO[1]
CprSameZone(y0, y1) == NLof(Abs(LatNumE(y0, y1)), TE) = NLof(Abs(LatNumO(y0, y1)), TO)

(***************************************************************************)
(* Encoder, for positions given in units of 10^-5 degree (about 1.1 m):    *)
(* lat5 in -8700000..8700000, lon5 in -18000000..18000000.                 *)
(***************************************************************************)
HalfUp(x2) == (x2 + 1) \div 2        \* floor(x + 1/2) from floor(2x)
EncLat(lat5, i) ==
  IF i = 0 THEN HalfUp(MulDiv(PMod(lat5, 600000), 2 * P17, 600000))
  ELSE HalfUp(MulDiv(PMod(lat5 * 59, 36000000), 2 * P17, 36000000))
\* lattice numerator of the encoded ("recovered") latitude
RLatNum(lat5, i) ==
  IF i = 0 THEN FloorDiv(lat5, 600000) * P17 + EncLat(lat5, 0)
  ELSE FloorDiv(lat5 * 59, 36000000) * P17 + EncLat(lat5, 1)
EncNL(lat5, i) == IF i = 0 THEN NLof(Abs(RLatNum(lat5, 0)), TE) ELSE NLof(Abs(RLatNum(lat5, 1)), TO)
EncLon(lat5, lon5, i) ==
  LET ni == Max(EncNL(lat5, i) - i, 1)
  IN  HalfUp(MulDiv(PMod(lon5 * ni, 36000000), 2 * P17, 36000000))
\* <<lat17, lon17>> of the position for parity i
CprEncode(lat5, lon5, i) == << EncLat(lat5, i) % P17, EncLon(lat5, lon5, i) % P17 >>

(***************************************************************************)
(* Great-circle central angle for the geometries where it is rational in   *)
(* the coordinates, in micro-degrees; observer (olat, olon) and position   *)
(* (lat, lon) in micro-degrees.  Distance = R * arc with R = 6371 km.      *)
(***************************************************************************)
ArcKind(olat, olon, lat, lon) ==
  IF Abs(olat) = 90000000 THEN "pole"
  ELSE IF olon = lon THEN "meridian"
  ELSE IF Abs(olon - lon) = 180000000 THEN "antimeridian"
  ELSE IF olat = 0 /\ lat = 0 THEN "equator"
  ELSE "general"
ArcMicroDeg(olat, olon, lat, lon) ==
  LET k == ArcKind(olat, olon, lat, lon) IN
  IF k = "pole" THEN Abs(olat - lat)
  ELSE IF k = "meridian" THEN Abs(olat - lat)
  ELSE IF k = "antimeridian" THEN 180000000 - Abs(olat + lat)
  ELSE LET d == Abs(olon - lon) IN IF d > 180000000 THEN 360000000 - d ELSE d
\* metres = 6371000 * pi/180 * arc;  pi/180 * 6371000 / 10^6 = 0.111194926644... m per micro-degree
\* = arc * 111194927 / 10^9, computed as MulDiv(arc, 111194927, 1000000000 / 2) / 2 to respect MulDiv's c < 7*10^8
DistMetres(arc) == MulDiv(arc, 111194927, 500000000) \div 2


(***************************************************************************)
(* Coarse great-circle arc for a general geometry (haversine with the      *)
(* 1-degree sine table SinD and linear interpolation, scale 5*10^8).       *)
(* Relative error about 10^-4: good enough to tell a right distance from a *)
(* wrong formula, not to judge the last hundred metres.                    *)
(***************************************************************************)
SC == 500000000
\* sin of x micro-degrees, 0 <= x <= 90*10^6, scaled by SC
SinU(x) == LET k == x \div 1000000  r == x % 1000000 IN
           IF k >= 90 THEN SinD[91] ELSE SinD[k + 1] + MulDiv(SinD[k + 2] - SinD[k + 1], r, 1000000)
\* sin of 0..180 degrees and cos of -90..90 degrees
Sin180(x) == IF x <= 90000000 THEN SinU(x) ELSE SinU(180000000 - x)
Cos90(x) == SinU(90000000 - Abs(x))
HavScaled(olat, olon, lat, lon) ==
  LET dphi2 == Abs(olat - lat) \div 2
      dl0   == Abs(olon - lon)
      dl    == IF dl0 > 180000000 THEN 360000000 - dl0 ELSE dl0
      sa    == SinU(dphi2)
      sb    == Sin180(dl \div 2)
      A     == MulDiv(sa, sa, SC)
      B     == MulDiv(sb, sb, SC)
      cc    == MulDiv(Cos90(olat), Cos90(lat), SC)
  IN  Min(SC, A + MulDiv(cc, B, SC))
\* theta in micro-degrees (0..90*10^6) with sin^2(theta) = h/SC: bisection, sin is monotone there
RECURSIVE AsinSqR(_, _, _, _)
AsinSqR(h, lo, hi, n) == IF n = 0 \/ hi - lo <= 1 THEN lo
                         ELSE LET mid == (lo + hi) \div 2  s == SinU(mid) IN
                              IF MulDiv(s, s, SC) <= h THEN AsinSqR(h, mid, hi, n - 1) ELSE AsinSqR(h, lo, mid, n - 1)
ArcGeneral(olat, olon, lat, lon) == 2 * AsinSqR(HavScaled(olat, olon, lat, lon), 0, 90000000, 28)

ASSUME NLof(0, TE) = 59 /\ NLof(TE[1], TE) = 1 /\ NLof(TE[1] - 1, TE) = 2
ASSUME NLof(TE[58] - 1, TE) = 59 /\ NLof(TE[58], TE) = 58
ASSUME \A k \in 1..57 : TE[k] > TE[k + 1] /\ TO[k] > TO[k + 1]
\* thresholds agree with the published 8-decimal table (here 6 decimals): TE[k] is the first numerator at or above it
ASSUME \A k \in 2..58 : /\ MicroDeg(TE[k], 60 * P17) >= NLB8[k] - 1
                        /\ MicroDeg(TE[k] - 1, 60 * P17) <= NLB8[k]
                        /\ MicroDeg(TO[k], 59 * P17) >= NLB8[k] - 1
                        /\ MicroDeg(TO[k] - 1, 59 * P17) <= NLB8[k]
=============================================================================
