--------------------------------- MODULE Dlog ---------------------------------
(***************************************************************************)
(* The downlink log written with -D <file>: what the reader loop appends   *)
(* for every frame that gets as far as being decoded (frame gate, non-zero *)
(* address, -f filter), in input order.  No listed property talks about    *)
(* the log's content (C19 only says that logging must not change what is   *)
(* decoded), so this module is implementation-shaped and is checked under  *)
(* Prop = DRIFT: a mismatch is reported as drift between specification and *)
(* code, not as a violation.                                               *)
(*                                                                         *)
(* A record is one or two text lines.  Each expected line is a pattern     *)
(* [t |-> code points, exact |-> BOOLEAN]: the logged line equals t, or    *)
(* (exact = FALSE) starts with t.                                          *)
(*   DF0/4/5/11/16   DFnn,ADDR,<squawk NL>,<CA>,<altitude>                 *)
(*                   (the squawk, when present, ends its line: a DF5       *)
(*                   record is "DF05,ADDR,7700" followed by ",,")          *)
(*   DF20/21         DFnn,ADDR,<altitude>          (DF21: prefix only)     *)
(*   DF17            DF17,ADDR,CA,TC.ST,...        (prefix only)           *)
(*   DF18,19,22-31   ,,,,                          (nothing decoded)       *)
(*   other 56-bit formats  DFnn,...                (prefix only)           *)
(* ADDR is upper-case hexadecimal without leading zeros.  Altitudes are    *)
(* fixed only where C05 fixes them (M = 0, Q = 1 codes and code 0).        *)
(***************************************************************************)
EXTENDS Squitterator, Render

Comma == 44
Two(n) == <<48 + (n \div 10), 48 + (n % 10)>>
DFText(df) == <<68, 70>> \o Two(df)                        \* "DFnn"
RECURSIVE HexR(_, _)
HexR(n, acc) == IF n < 16 THEN <<HexChar(n)>> \o acc ELSE HexR(n \div 16, <<HexChar(n % 16)>> \o acc)
HexNoPad(n) == HexR(n, <<>>)

Pat(t, exact) == [t |-> t, exact |-> exact]

\* altitude text of a 13-bit code where C05 fixes it: <<TRUE, text>>, or <<FALSE>> when it does not
AltText13(c) ==
  LET s == Alt13(c) IN
  IF c = 0 THEN <<TRUE, <<>> >>
  ELSE IF CB(c, 6) = 0 /\ CB(c, 8) = 1 THEN (IF s.kind = "val" THEN <<TRUE, Digits(s.v)>> ELSE <<TRUE, <<>> >>)
  ELSE <<FALSE>>

DlogRecord(f, a) ==
  LET df   == DFof(f)
      head == DFText(df) \o <<Comma>> \o HexNoPad(a)
  IN
  IF df \in {18, 19} \/ df >= 22 THEN << Pat(<<Comma, Comma, Comma, Comma>>, TRUE) >>
  ELSE IF df = 17 THEN << Pat(head \o <<Comma>> \o Digits(CAof(f)) \o <<Comma>> \o Digits(TCof(f)) \o <<46>> \o Digits(STof(f)) \o <<Comma>>, FALSE) >>
  ELSE IF df = 20 THEN
       LET at == AltText13(AC13of(f)) IN
       IF at[1] THEN << Pat(head \o <<Comma>> \o at[2], TRUE) >> ELSE << Pat(head \o <<Comma>>, FALSE) >>
  ELSE IF df = 21 THEN << Pat(head \o <<Comma>>, FALSE) >>
  ELSE IF df = 5 THEN << Pat(head \o <<Comma>> \o Digits(Squawk(ID13of(f))), TRUE), Pat(<<Comma, Comma>>, TRUE) >>
  ELSE IF df = 4 THEN
       LET at == AltText13(AC13of(f)) IN
       IF at[1] THEN << Pat(head \o <<Comma, Comma, Comma>> \o at[2], TRUE) >> ELSE << Pat(head \o <<Comma, Comma, Comma>>, FALSE) >>
  ELSE IF df = 11 THEN << Pat(head \o <<Comma, Comma>> \o Digits(CAof(f)) \o <<Comma>>, TRUE) >>
  ELSE IF df \in {0, 16} THEN << Pat(head \o <<Comma, Comma, Comma>>, TRUE) >>
  ELSE << Pat(DFText(df) \o <<Comma>>, FALSE) >>             \* formats without a decoder below DF16

RECURSIVE Flatten(_, _)
Flatten(ss, acc) == IF ss = <<>> THEN acc ELSE Flatten(Tail(ss), acc \o Head(ss))

StartsWith(s, t) == Len(s) >= Len(t) /\ SubSeq(s, 1, Len(t)) = t
LineMatches(s, p) == IF p.exact THEN s = p.t ELSE StartsWith(s, p.t)
\* index of the first logged line that does not match (0: all match and the counts agree; -1: counts differ only)
FirstMismatch(log, pats) ==
  LET n == IF Len(log) < Len(pats) THEN Len(log) ELSE Len(pats)
      bad == {j \in 1..n : ~LineMatches(log[j], pats[j])}
  IN  IF bad # {} THEN CHOOSE j \in bad : \A k \in bad : j <= k
      ELSE IF Len(log) # Len(pats) THEN -1 ELSE 0

(***************************************************************************)
(* The message log: with -l <file> -M <df> ... every frame that passes the *)
(* gate and has a non-zero address and whose format is listed under -M is  *)
(* written to the error log, BEFORE the -f filter is applied, as           *)
(*     ERROR - DF:<df>, L:<the line as received>                           *)
(* one record per such line, in input order.                               *)
(***************************************************************************)
MlogPrefix == <<69, 82, 82, 79, 82, 32, 45, 32, 68, 70, 58>>                   \* "ERROR - DF:"
MlogRecord(df, line) == MlogPrefix \o Digits(df) \o <<44, 32, 76, 58>> \o line    \* ", L:"

ASSUME HexNoPad(0) = <<48>> /\ HexNoPad(4735190) = <<52, 56, 52, 48, 68, 54>> /\ HexNoPad(2748) = <<65, 66, 67>>
ASSUME DFText(4) = <<68, 70, 48, 52>> /\ DFText(21) = <<68, 70, 50, 49>>
=============================================================================
