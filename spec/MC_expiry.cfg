SPECIFICATION Spec
CONSTANTS
  Alphabet <- AlphaLit
  Filt <- NoFilt
  OptR = FALSE
  OptU = FALSE
  DeleteAfter = 2
  Ticks <- TickSet
  MaxSteps = 5
  Batch <- Batches
  TickResetsCtr = TRUE
INVARIANT InvFold
INVARIANT InvExpiry
INVARIANT InvCount
PROPERTY Isolation
VIEW View
CHECK_DEADLOCK FALSE
