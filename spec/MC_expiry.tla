------------------------------ MODULE MC_expiry ------------------------------
(***************************************************************************)
(* Bounded instance for C12: 3 aircraft, 5 frames, delete_after D seconds, *)
(* clock steps D-1, D, D+1 s; every clock step starts a new reader run     *)
(* (the way the harness feeds file segments), so sweeps happen at the 12th *)
(* accepted frame of a run.  Depth = MaxSteps (cfg).                       *)
(***************************************************************************)
EXTENDS Model, A_expiry, L_expiry
NoFilt == <<>>
Batches == {1, 10, 11}
TickSet == {(DeleteAfter - 1) * 1000, DeleteAfter * 1000, (DeleteAfter + 1) * 1000}
ASSUME AlphaLit = Alpha
=============================================================================
