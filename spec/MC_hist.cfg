SPECIFICATION Spec
CONSTANTS
  Alphabet <- Alpha
  Filt <- NoFilt
  OptR = FALSE
  OptU = FALSE
  DeleteAfter = 60
  Ticks <- TickSet
  MaxSteps = 4
INVARIANT InvFold
INVARIANT InvExpiry
INVARIANT InvCount
INVARIANT InvRange
PROPERTY Isolation
VIEW View
ACTION_CONSTRAINT Emit
CHECK_DEADLOCK FALSE
