------------------------------- MODULE MC_hist -------------------------------
(***************************************************************************)
(* Bounded instance for the history properties (C11, with C05/C06/C07/C09  *)
(* in history form, C03 isolation, C08 pairing, C10 gating, C16 counting): *)
(* two aircraft, one frame of (almost) every supported format with valid   *)
(* and "no valid value" variants for aircraft A, two frames for aircraft   *)
(* B, clock steps on both sides of the 10 s pairing window.                *)
(* Constants: |Alphabet| = 24, Ticks = {9 s, 11 s}, MaxSteps from the cfg. *)
(***************************************************************************)
EXTENDS Model, A_hist, L_hist

NoFilt == <<>>
F17 == << <<17>> >>
F4_5 == << <<4, 5>> >>
One == {1}
TickSet == {9000, 11000}
ASSUME AlphaLit = Alpha
=============================================================================
