SPECIFICATION Spec
CONSTANTS
  Alphabet <- AlphaLit
  Filt <- NoFilt
  OptR = FALSE
  OptU = FALSE
  DeleteAfter = 60
  Ticks <- TickSet
  MaxSteps = 4
  Batch <- One
  TickResetsCtr = FALSE
INVARIANT InvFold
INVARIANT InvCount
INVARIANT Total
PROPERTY Inert
PROPERTY Isolation
VIEW View
CHECK_DEADLOCK FALSE
