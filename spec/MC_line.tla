------------------------------- MODULE MC_line -------------------------------
(***************************************************************************)
(* Bounded instance for the line group (C01, C02, C13): an alphabet of     *)
(* accepted frames and of every way a line fails to be a frame.            *)
(*   Total    : in every reachable state every line of the alphabet has    *)
(*              an outcome (the step relation is total: nothing wedges)    *)
(*   Inert    : a line that is not an accepted frame changes nothing that  *)
(*              later lines depend on (table, memory, counters)            *)
(*   Filtered : the table after a stream equals the table after the        *)
(*              subsequence of its accepted lines (checked through the     *)
(*              reference fold, which only folds accepted frames)          *)
(***************************************************************************)
EXTENDS Model, A_line, L_line
NoFilt == <<>>
One == {1}
TickSet == {11000}
ASSUME AlphaLit = Alpha
Accepted(k) == LET li == LI[k] IN li.isf /\ li.a # 0 /\ li.df \in NineDF
Total == steps < MaxSteps => \A k \in Frames : ENABLED Line(k, 1)
Inert == [][LET h == hist' IN (Len(h) > Len(hist) /\ h[Len(h)] > 0 /\ ~Accepted(h[Len(h)]))
                => UNCHANGED <<table, aux, now, ctr, cnt, ref, refcnt>>]_vars
\* which alphabet entries the oracle accepts: fixed by the statement of C02 / C04
ASSUME {k \in 1..Len(AlphaLit) : Accepted(k)} = {1, 2, 3, 4, 11}
=============================================================================
