SPECIFICATION Spec
CONSTANTS
  Update = 1
  Gaps <- G
  MaxFrames = 6
INVARIANT EveryFrame
INVARIANT Spaced
PROPERTY Prompt
CHECK_DEADLOCK FALSE
