SPECIFICATION Spec
CONSTANTS
  Update = 3
  Gaps <- G
  MaxFrames = 6
INVARIANT EveryFrame
INVARIANT Spaced
PROPERTY Prompt
CHECK_DEADLOCK FALSE
