SPECIFICATION Spec
CONSTANTS
  Faults <- FaultKinds
  MaxFaults = 3
  Pause = 5000
  MaxClock = 20000
INVARIANT NoLoss
INVARIANT AttemptsBounded
PROPERTY ConnKeepsTable
PROPERTY PauseRespected
PROPERTY Recovers
CHECK_DEADLOCK FALSE
