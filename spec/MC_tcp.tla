------------------------------- MODULE MC_tcp -------------------------------
(* Bounded instance of the TCP life-cycle: all scripts of up to MaxFaults faults over the six fault kinds,  *)
(* then a healthy connection; clock in steps of 1 s up to MaxClock.  Liveness is checked on the full        *)
(* (unconstrained) instance: the clock bound is part of the model, not a state constraint.                 *)
EXTENDS Tcp
FaultKinds == {"refuse", "close", "frames", "partial", "partialfin", "junk"}
=============================================================================
