SPECIFICATION Spec
CONSTANTS
  Faults <- FaultKinds
  MaxFaults = 5
  Pause = 5000
  MaxClock = 32000
INVARIANT NoLoss
INVARIANT AttemptsBounded
PROPERTY ConnKeepsTable
PROPERTY PauseRespected
PROPERTY Recovers
CHECK_DEADLOCK FALSE
