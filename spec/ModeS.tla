-------------------------------- MODULE ModeS --------------------------------
(***************************************************************************)
(* The Mode S oracle: what a line of text denotes, which frames are        *)
(* accepted, whose they are, and what their fields mean.  Written from     *)
(* the property statements and ICAO Annex 10 vol. IV / Doc 9871 /          *)
(* DO-260B, not from the implementation.  Everything is a pure operator    *)
(* over a frame = sequence of 14 or 28 nibbles.                            *)
(***************************************************************************)
EXTENDS Bits, Trig

(************************** text line -> digits ***************************)
\* a line is a sequence of bytes; keep the ASCII hexadecimal digits
HexVal(b) == IF b >= 48 /\ b <= 57 THEN b - 48
             ELSE IF b >= 65 /\ b <= 70 THEN b - 55
             ELSE IF b >= 97 /\ b <= 102 THEN b - 87
             ELSE -1
IsHex(b) == HexVal(b) >= 0
Clean(bytes) == LET h == SelectSeq(bytes, IsHex) IN [i \in 1..Len(h) |-> HexVal(h[i])]

\* 14 / 28 digits are a frame; 26 / 40 carry a 12-digit receiver time stamp first
Strip(d) == IF Len(d) \in {14, 28} THEN d
            ELSE IF Len(d) \in {26, 40} THEN SubSeq(d, 13, Len(d))
            ELSE <<>>

DFof(f) == f[1] * 2 + (f[2] \div 8)
LenAgrees(f) == (Len(f) = 14) <=> (DFof(f) < 16)

(******************************* CRC-24 ***********************************)
\* generator x^24 + x^23 + ... = 0x1FFF409; G24 is its low 24 bits
G24 == 16774153
\* The generator has degree 24 and constant term 1, so x does not divide it: an error burst x^k * b(x) with deg b < 24,
\* b # 0, is never a multiple of the generator - every burst of up to 24 bits is detected (Thm.tla enumerates up to 14).
ASSUME G24 % 2 = 1 /\ G24 < 16777216
P24 == 16777216
FeedBit(r, b) == LET s == 2 * r + b IN IF s >= P24 THEN XorI(s - P24, G24) ELSE s
\* (k * x^24) mod G for a nibble k: feed four zero bits after the nibble
NibTab == [k \in 0..15 |->
             LET a == FeedBit(FeedBit(FeedBit(FeedBit(k, 0), 0), 0), 0)   \* k*x^4, k < 16: no reduction
             IN  a]
\* One nibble step: r' = (r*16 + n) reduced.  The top nibble t of r*16 is multiplied by x^24.
RECURSIVE RedTop(_, _)
RedTop(t, k) == \* (t * x^24) mod G for t < 16, bit-serial over the four bits of t
  IF k = 0 THEN 0
  ELSE LET hi == RedTop(t \div 2, k - 1)           \* ((t div 2) * x^24) mod G
           d  == 2 * hi                             \* times x
           dr == IF d >= P24 THEN XorI(d - P24, G24) ELSE d
       IN  IF t % 2 = 1 THEN XorI(dr, G24) ELSE dr  \* plus x^24 mod G = G24
TopTab == [t \in 0..15 |-> RedTop(t, 4)]
FeedNib(r, n) == LET s == (r % 1048576) * 16 + n   \* low 20 bits shifted, plus the nibble
                 IN  XorI(s, TopTab[r \div 1048576])
RECURSIVE SynR(_, _, _)
SynR(f, i, r) == IF i > Len(f) THEN r ELSE SynR(f, i + 1, FeedNib(r, f[i]))
\* remainder of the whole frame (data and parity field) modulo the generator
Syndrome(f) == SynR(f, 1, 0)

\* bit-serial reference, used only to cross-check the nibble version
RECURSIVE SynBitsR(_, _, _)
SynBitsR(f, i, r) == IF i > 4 * Len(f) THEN r ELSE SynBitsR(f, i + 1, FeedBit(r, Bit(f, i)))
SyndromeBits(f) == SynBitsR(f, 1, 0)

\* DF17/18: remainder 0.  DF11: upper 17 bits of the remainder 0 (low 7 = interrogator code).
ParityOK(f) == LET df == DFof(f) IN
  IF df \in {17, 18} THEN Syndrome(f) = 0
  ELSE IF df = 11 THEN Syndrome(f) \div 128 = 0
  ELSE TRUE

IsFrameDigits(d) == LET f == Strip(d) IN Len(f) \in {14, 28} /\ LenAgrees(f) /\ ParityOK(f)
IsFrame(bytes) == IsFrameDigits(Clean(bytes))
FrameOf(bytes) == Strip(Clean(bytes))

NineDF == {0, 4, 5, 11, 16, 17, 18, 20, 21}
\* AA field for DF11/17/18; AP xor CRC of the preceding bits = syndrome of the whole frame otherwise
Address(f) == IF DFof(f) \in {11, 17, 18} THEN Field(f, 9, 32) ELSE Syndrome(f)

(*************************** simple fields ********************************)
CAof(f) == Field(f, 6, 8)
TCof(f) == Field(f, 33, 37)
STof(f) == Field(f, 38, 40)
AC13of(f) == Field(f, 20, 32)
ID13of(f) == Field(f, 20, 32)
AC12of(f) == Field(f, 41, 52)
MBof(f) == SubSeq(f, 9, 22)          \* 56-bit MB / ME field as 14 nibbles

(***************************** altitude ***********************************)
\* 13-bit code, i = 0..12 :  C1 A1 C2 A2 C4 A4 M B1 Q B2 D2 B4 D4
CB(c, i) == (c \div Pow2(12 - i)) % 2
Gray3(a, b, c) == LET x == a  y == (a + b) % 2  z == (a + b + c) % 2 IN 4 * x + 2 * y + z
RECURSIVE GrayR(_, _, _, _)
GrayR(bits, i, run, acc) == IF i > Len(bits) THEN acc
                            ELSE LET r == (run + bits[i]) % 2 IN GrayR(bits, i + 1, r, 2 * acc + r)
Gray(bits) == GrayR(bits, 1, 0, 0)

AltNone == [kind |-> "none"]
AltAny  == [kind |-> "any"]
AltVal(v) == [kind |-> "val", v |-> v]

\* Gillham (Mode C) code, Q = 0, M = 0
Gillham(c) ==
  LET one0 == Gray(<<CB(c, 0), CB(c, 2), CB(c, 4)>>)                      \* C1 C2 C4
      one1 == IF one0 = 7 THEN 5 ELSE IF one0 = 5 THEN 7 ELSE one0
      five == Gray(<<CB(c, 10), CB(c, 12), CB(c, 1), CB(c, 3), CB(c, 5),  \* D2 D4 A1 A2 A4
                     CB(c, 7), CB(c, 9), CB(c, 11)>>)                     \* B1 B2 B4
      one  == IF five % 2 = 1 THEN 6 - one1 ELSE one1
      v    == 100 * (5 * five + one - 13)
  IN  IF one0 = 0 \/ one1 > 5 \/ v < 0 THEN AltNone ELSE AltVal(v)

N11(c) == (c \div 128) * 32 + ((c \div 32) % 2) * 16 + (c % 16)
Alt13(c) == IF c = 0 THEN AltNone
            ELSE IF CB(c, 6) = 1 THEN AltAny                             \* M = 1: metric, unconstrained
            ELSE IF CB(c, 8) = 1 THEN (IF 25 * N11(c) >= 1000 THEN AltVal(25 * N11(c) - 1000) ELSE AltNone)
            ELSE Gillham(c)
\* 12-bit code of the airborne position squitter: the 13-bit code without the M bit
Alt12(c) == Alt13((c \div 64) * 128 + (c % 64))

\* tag of an altitude code, for findings bookkeeping
AltTag(c13) == IF c13 = 0 THEN "alt.zero" ELSE IF CB(c13, 6) = 1 THEN "alt.M1"
               ELSE IF CB(c13, 8) = 1 THEN "alt.Q1" ELSE "alt.Q0"

(****************************** identity **********************************)
\* 13-bit identity field  C1 A1 C2 A2 C4 A4 X B1 D1 B2 D2 B4 D4  ->  decimal number ABCD
Squawk(c) == (4 * CB(c, 5) + 2 * CB(c, 3) + CB(c, 1)) * 1000
           + (4 * CB(c, 11) + 2 * CB(c, 9) + CB(c, 7)) * 100
           + (4 * CB(c, 4) + 2 * CB(c, 2) + CB(c, 0)) * 10
           + (4 * CB(c, 12) + 2 * CB(c, 10) + CB(c, 8))

(****************************** callsign **********************************)
CharOf(k) == IF k >= 1 /\ k <= 26 THEN <<64 + k>>
             ELSE IF k >= 48 /\ k <= 57 THEN <<k>>
             ELSE <<>>
\* eight 6-bit characters in frame bits 41..88 (ME / MB bits 9..56)
Callsign(f) == CharOf(Field(f, 41, 46)) \o CharOf(Field(f, 47, 52)) \o CharOf(Field(f, 53, 58))
            \o CharOf(Field(f, 59, 64)) \o CharOf(Field(f, 65, 70)) \o CharOf(Field(f, 71, 76))
            \o CharOf(Field(f, 77, 82)) \o CharOf(Field(f, 83, 88))

\* wake class letter of an emitter category (type code, category), <<>> = blank
Wake(tc, ca) == IF tc # 4 THEN <<>>
                ELSE IF ca = 1 THEN <<76>> ELSE IF ca = 2 THEN <<83>> ELSE IF ca = 3 THEN <<77>>
                ELSE IF ca = 4 THEN <<72>> ELSE IF ca = 5 THEN <<74>> ELSE IF ca = 7 THEN <<82>>
                ELSE <<>>

SurvStatus(f) == LET s == Field(f, 38, 39) IN
                 IF s = 0 THEN 78 ELSE IF s = 1 THEN 80 ELSE IF s = 2 THEN 84 ELSE 83   \* N P T S

(****************************** velocity **********************************)
VewF(f) == Field(f, 47, 56)
VnsF(f) == Field(f, 58, 67)
VrF(f)  == Field(f, 70, 78)
\* signed components (field - 1), west and south negative
Vew(f) == IF Bit(f, 46) = 1 THEN -(VewF(f) - 1) ELSE VewF(f) - 1
Vns(f) == IF Bit(f, 57) = 1 THEN -(VnsF(f) - 1) ELSE VnsF(f) - 1
VelHasInfo(f) == VewF(f) # 0 /\ VnsF(f) # 0
\* exact floor(sqrt(e^2 + n^2)); e, n <= 1022 so the sum is < 2^21
SpeedKt(e, n) == ISqrt(e * e + n * n)
\* supersonic subtype: 4 kt units; any value within 4 kt of 4*sqrt(e^2+n^2) is accepted
SpeedOK4(e, n, gs) == Abs(gs - ISqrt(16 * (e * e + n * n))) <= 4

\* largest k in 0..90 with tan(k deg) <= e/n, i.e. n*sin(k) <= e*cos(k)   (e, n >= 0, not both 0)
RECURSIVE Q1R(_, _, _, _)
Q1R(e, n, lo, hi) == IF lo >= hi THEN lo
                     ELSE LET mid == (lo + hi + 1) \div 2
                          IN  IF MulLe(n, SinT[mid + 1], e, CosT[mid + 1]) THEN Q1R(e, n, mid, hi)
                              ELSE Q1R(e, n, lo, mid - 1)
Q1(e, n) == Q1R(e, n, 0, 90)
\* floor(atan2(e, n) in degrees) mod 360 for integers e (east), n (north), not both 0
Track(e, n) ==
  LET ae == Abs(e)  an == Abs(n)
      k  == Q1(ae, an)
      cl == IF ae = 0 \/ an = 0 \/ ae = an THEN k ELSE k + 1      \* ceil of the first-quadrant angle
  IN  IF e >= 0 /\ n >= 0 THEN k % 360
      ELSE IF e >= 0 THEN (180 - cl) % 360
      ELSE IF n < 0 THEN (180 + k) % 360
      ELSE (360 - cl) % 360

VRateHasInfo(f) == VrF(f) # 0
VRate(f) == IF Bit(f, 69) = 1 THEN -(64 * (VrF(f) - 1)) ELSE 64 * (VrF(f) - 1)

(****************************** encoders **********************************)
\* Used by model instances to define frame alphabets in TLA+ and by Vectors for round trips.
RECURSIVE NibsOfR(_, _, _)
NibsOfR(v, n, acc) == IF n = 0 THEN acc ELSE NibsOfR(v \div 16, n - 1, <<v % 16>> \o acc)
NibsOf(v, n) == NibsOfR(v, n, <<>>)           \* n nibbles, most significant first

RECURSIVE BitsOfR(_, _, _)
BitsOfR(v, n, acc) == IF n = 0 THEN acc ELSE BitsOfR(v \div 2, n - 1, <<v % 2>> \o acc)
BitsOf(v, n) == BitsOfR(v, n, <<>>)
\* fields = sequence of <<value, width>>; total width a multiple of 4
RECURSIVE CatBits(_, _)
CatBits(fields, i) == IF i > Len(fields) THEN <<>>
                      ELSE BitsOf(fields[i][1], fields[i][2]) \o CatBits(fields, i + 1)
BitsToNibs(b) == [i \in 1..(Len(b) \div 4) |-> 8 * b[4*i - 3] + 4 * b[4*i - 2] + 2 * b[4*i - 1] + b[4*i]]
Pack(fields) == BitsToNibs(CatBits(fields, 1))

Zero6 == <<0, 0, 0, 0, 0, 0>>
\* squitters: data ++ PI where PI makes the whole frame divisible (ii = interrogator code for DF11)
WithPI(data, ii) == data \o NibsOf(XorI(Syndrome(data \o Zero6), ii), 6)
\* addressed replies: data ++ AP where AP = address xor CRC(data)
WithAP(data, addr) == data \o NibsOf(XorI(Syndrome(data \o Zero6), addr), 6)

MkDF11(ca, aa, ii)   == WithPI(Pack(<< <<11, 5>>, <<ca, 3>>, <<aa, 24>> >>), ii)
MkDF17(ca, aa, me)   == WithPI(Pack(<< <<17, 5>>, <<ca, 3>>, <<aa, 24>> >>) \o me, 0)
MkDF18(cf, aa, me)   == WithPI(Pack(<< <<18, 5>>, <<cf, 3>>, <<aa, 24>> >>) \o me, 0)
\* short replies: DF, 14 filler bits (FS/DR/UM or VS/CC/SL/RI), 13-bit AC or ID
MkShort(df, fill14, code13, addr) == WithAP(Pack(<< <<df, 5>>, <<fill14, 14>>, <<code13, 13>> >>), addr)
\* long replies DF16/20/21: same header, 56-bit MV/MB (14 nibbles)
MkLong(df, fill14, code13, mb, addr) == WithAP(Pack(<< <<df, 5>>, <<fill14, 14>>, <<code13, 13>> >>) \o mb, addr)

\* ME fields (14 nibbles)
\* identification: TC 1..4, category, eight 6-bit characters
MeIdent(tc, cat, ch) == Pack(<< <<tc, 5>>, <<cat, 3>>, <<ch[1], 6>>, <<ch[2], 6>>, <<ch[3], 6>>, <<ch[4], 6>>,
                                <<ch[5], 6>>, <<ch[6], 6>>, <<ch[7], 6>>, <<ch[8], 6>> >>)
\* airborne position: TC 9..18, SS, SAF, AC12, T, F, lat17, lon17
MeAirPos(tc, ss, ac12, odd, lat17, lon17) ==
  Pack(<< <<tc, 5>>, <<ss, 2>>, <<0, 1>>, <<ac12, 12>>, <<0, 1>>, <<odd, 1>>, <<lat17, 17>>, <<lon17, 17>> >>)
\* surface position: TC 5..8, movement 7, status 1, track 7, T, F, lat17, lon17
MeSurface(tc, mov, trkst, trk, odd, lat17, lon17) ==
  Pack(<< <<tc, 5>>, <<mov, 7>>, <<trkst, 1>>, <<trk, 7>>, <<0, 1>>, <<odd, 1>>, <<lat17, 17>>, <<lon17, 17>> >>)
\* airborne velocity subtype 1/2: TC 19, ST, IC, IFR, NUC(3), Dew, Vew, Dns, Vns, VrSrc, Svr, Vr, rsvd 2, Sdif, dif 7
MeVelocity(st, dew, vew, dns, vns, svr, vr) ==
  Pack(<< <<19, 5>>, <<st, 3>>, <<0, 5>>, <<dew, 1>>, <<vew, 10>>, <<dns, 1>>, <<vns, 10>>, <<0, 1>>,
          <<svr, 1>>, <<vr, 9>>, <<0, 10>> >>)
\* operational status: TC 31, version in ME bits 41..43
MeOpStatus(ver) == Pack(<< <<31, 5>>, <<0, 3>>, <<0, 16>>, <<0, 16>>, <<ver, 3>>, <<0, 13>> >>)
\* GNSS-height position TC 20..22
MeGnssPos(tc, ss, h12, odd, lat17, lon17) ==
  Pack(<< <<tc, 5>>, <<ss, 2>>, <<0, 1>>, <<h12, 12>>, <<0, 1>>, <<odd, 1>>, <<lat17, 17>>, <<lon17, 17>> >>)

\* 13-bit altitude code for a multiple of 25 ft (Q = 1)
EncAlt13(ft) == LET n == (ft + 1000) \div 25 IN (n \div 32) * 128 + ((n \div 16) % 2) * 32 + 16 + (n % 16)
EncAlt12(ft) == LET n == (ft + 1000) \div 25 IN (n \div 16) * 32 + 16 + (n % 16)
\* 13-bit identity code of squawk digits a b c d
EncSquawk(a, b, c, d) ==
    ((c % 2) * 4096) + ((a % 2) * 2048) + (((c \div 2) % 2) * 1024) + (((a \div 2) % 2) * 512)
  + ((c \div 4) * 256) + ((a \div 4) * 128) + ((b % 2) * 32) + ((d % 2) * 16) + (((b \div 2) % 2) * 8)
  + (((d \div 2) % 2) * 4) + ((b \div 4) * 2) + (d \div 4)

\* hex text (code points, upper case) of a frame
HexChar(n) == IF n < 10 THEN 48 + n ELSE 55 + n
HexText(f) == [i \in 1..Len(f) |-> HexChar(f[i])]
=============================================================================
