-------------------------------- MODULE Model --------------------------------
(***************************************************************************)
(* The decoder as a state machine over a finite frame alphabet.            *)
(*                                                                         *)
(*   Line(k)  one iteration of the reader loop on line Alphabet[k]:        *)
(*            Reject / Filtered (nothing changes) or Apply = count, create *)
(*            or update exactly one row, sweep, (refresh is output only)   *)
(*   Tick(d)  the wall clock advances                                      *)
(*                                                                         *)
(* The row update is the set of rows admitted by the per-parameter         *)
(* predicates of Squitterator.tla (the same predicates TraceCheck applies   *)
(* to recorded executions).  Independently of them this module keeps a     *)
(* REFERENCE FOLD of the input history, written from the statement of      *)
(* C11/C12/C16 ("the most recent frame that carries the parameter", "heard *)
(* within delete_after", "number of accepted frames of that DF"), and the  *)
(* invariants say that the step rules agree with the fold.                 *)
(*                                                                         *)
(* An instance (MC_*.tla) defines: Alphabet (sequence of frames), Filt,    *)
(* OptR, DeleteAfter (s), Ticks (set of ms), MaxSteps.                     *)
(***************************************************************************)
EXTENDS Squitterator, FiniteSets, TLC, Json

CONSTANTS Alphabet, Filt, OptR, OptU, DeleteAfter, Ticks, MaxSteps,
          Batch,          \* set of repeat counts: Line(k, n) feeds frame k n times in a row (n = 1: a single line)
          TickResetsCtr   \* TRUE: a clock step also starts a new reader run (file segments); FALSE: one continuous feed

VARIABLES table,   \* address -> row (the aircraft table)
          aux,     \* address -> [slots, adv]   position slots and advertised registers (decoder memory)
          now,     \* ms
          ctr,     \* sweep counter of the running reader
          cnt,     \* DF -> counter shown by -c
          steps,   \* number of steps taken (bound)
          ref,     \* REFERENCE FOLD: address -> [param -> set of admissible values], heard time, frames since stale
          refcnt,  \* REFERENCE: DF -> number of applied frames
          hist     \* input history (for scenario emission; outside the VIEW)

vars == <<table, aux, now, ctr, cnt, steps, ref, refcnt, hist>>

Params == {"alt", "sq", "cs", "cat", "gs", "trk", "vr", "ss", "ver", "ca"}
NoAuxM == [slots |-> << <<>>, <<>> >>, adv |-> [b40 |-> FALSE, b50 |-> FALSE, b60 |-> FALSE]]
ModelBlank == [BlankRow EXCEPT !.ss = 32] @@ [ts |-> 0]

(************************ candidates for the next row **********************)
\* Candidate values per parameter; the admissibility predicates of Squitterator.tla select among them.
\* For the Comm-B value fields the model explores "unchanged" and "decoded" but not "blanked by the
\* range filter" (admissible, judged by TraceCheck, but it only multiplies model states).
AltC(pre, f) == {pre.alt, <<>>} \cup (IF CarriesAlt(f) /\ AltSpecOf(f).kind = "val" THEN {<<AltSpecOf(f).v>>} ELSE {})
SqC(pre, f) == {pre.sq} \cup (IF CarriesSq(f) THEN {<<Squawk(ID13of(f))>>} ELSE {})
CsC(pre, f) == {pre.cs} \cup (IF IsIdent(f) \/ IsCommB(f) THEN {<<Callsign(f)>>} ELSE {})
CatC(pre, f) == {pre.cat} \cup (IF IsIdent(f) THEN {<<TCof(f), STof(f)>>} ELSE {})
GsC(pre, f) == {pre.gs} \cup (IF IsVel12(f) THEN {<<>>} ELSE {}) \cup (IF IsVel12(f) /\ VelHasInfo(f)
                                     THEN {<<IF STof(f) = 1 THEN SpeedKt(Vew(f), Vns(f)) ELSE ISqrt(16 * (Vew(f) * Vew(f) + Vns(f) * Vns(f)))>>}
                                     ELSE IF IsCommB(f) THEN {<<Gs50(f)>>} ELSE {})
TrkC(pre, f) == {pre.trk} \cup (IF IsVel12(f) THEN {<<>>} ELSE {}) \cup (IF IsVel12(f) /\ VelHasInfo(f) /\ ~(Vew(f) = 0 /\ Vns(f) = 0) THEN {<<Track(Vew(f), Vns(f))>>}
                                       ELSE IF IsCommB(f) THEN {<<(90 * TrackU50(f)) \div 512>>} ELSE {})
VrC(pre, f) == {pre.vr} \cup (IF IsVel12(f) THEN {<<>>} ELSE {}) \cup (IF IsVel12(f) /\ VRateHasInfo(f) THEN {<<VRate(f)>>}
                                     ELSE IF IsCommB(f) THEN {<<BaroRate60(f)>>} ELSE {})
SsC(pre, f) == {pre.ss} \cup (IF IsAirPos(f) \/ IsGnssPos(f) THEN {SurvStatus(f)} ELSE {})
VerC(pre, f) == {pre.ver} \cup (IF IsOpStat(f) THEN {<<Field(f, 73, 75)>>} ELSE {})
CaC(pre, f) == {pre.ca} \cup (IF DFof(f) \in {11, 17} THEN {CAof(f)} ELSE {})
CapsC(pre, f) == {pre.caps} \cup (IF IsCommB(f) THEN {<<0, 1, Caps17(f).b40, 0, Caps17(f).b50, Caps17(f).b60>>} ELSE {})
SelC(pre, f) == {pre.sel} \cup (IF IsCommB(f) THEN {<<Mcp40(f)>>} ELSE {})
BaroC(pre, f) == {pre.baro} \cup (IF IsCommB(f) THEN {<<(BaroRaw40(f) + 8000) \div 10>>} ELSE {})
RollC(pre, f) == {pre.roll} \cup (IF IsCommB(f) THEN {<<FloorDiv(45 * RollS50(f), 256)>>} ELSE {})
TarC(pre, f) == {pre.tar} \cup (IF IsCommB(f) THEN {<<FloorDiv(8 * TarS50(f), 256)>>} ELSE {})
TasC(pre, f) == {pre.tas} \cup (IF IsCommB(f) THEN {<<Tas50(f)>>} ELSE {})
HdgC(pre, f) == {pre.hdg} \cup (IF IsCommB(f) THEN {<<(90 * HdgU60(f)) \div 512>>} ELSE {})
IasC(pre, f) == {pre.ias} \cup (IF IsCommB(f) THEN {<<Ias60(f)>>} ELSE {})
MachC(pre, f) == {pre.mach} \cup (IF IsCommB(f) THEN {<<MachMilli60(f)>>} ELSE {})
ThrC(pre, f) == {pre.thr} \cup (IF IsCommB(f) THEN {<<1>>, <<>>} ELSE {})

\* For frames no property constrains (DF18, other formats) the model keeps the row as it is.
NextRows(pre, f, ctx, x, t) ==
  LET adv == x.adv
      sl1 == SlotsAfter(x.slots, f, t, t)
      vd  == PairVerdict(sl1, f)
      posC == {<<pre.lat, pre.lon>>} \cup (IF vd.k = "decode" THEN {<<vd.lat, vd.lon>>} ELSE {})
      base ==
        [alt  : IF Free(f) THEN {pre.alt} ELSE {v \in AltC(pre, f) : AdmAlt(pre, v, f, ctx)},
         sq   : IF Free(f) THEN {pre.sq} ELSE {v \in SqC(pre, f) : AdmSq(pre, v, f, ctx)},
         cs   : IF Free(f) THEN {pre.cs} ELSE {v \in CsC(pre, f) : AdmCs(pre, v, f, ctx)},
         cat  : IF Free(f) THEN {pre.cat} ELSE {v \in CatC(pre, f) : AdmCat(pre, v, f, ctx)},
         ca   : IF Free(f) THEN {pre.ca} ELSE {v \in CaC(pre, f) : AdmCa(pre, v, f, ctx)},
         caps : IF Free(f) THEN {pre.caps} ELSE {v \in CapsC(pre, f) : AdmCaps(pre, v, f, ctx)},
         gs   : IF Free(f) THEN {pre.gs} ELSE {v \in GsC(pre, f) : AdmGs(pre, v, f, ctx, adv)},
         trk  : IF Free(f) \/ IsSurface(f) THEN {pre.trk} ELSE {v \in TrkC(pre, f) : AdmTrk(pre, v, f, ctx, adv)},
         vr   : IF Free(f) \/ (IsVel(f) /\ ~IsVel12(f)) THEN {pre.vr} ELSE {v \in VrC(pre, f) : AdmVr(pre, v, f, ctx, adv)},
         ss   : IF Free(f) THEN {pre.ss} ELSE {v \in SsC(pre, f) : AdmSs(pre, v, f, ctx)},
         ver  : IF Free(f) THEN {pre.ver} ELSE {v \in VerC(pre, f) : AdmVer(pre, v, f, ctx)},
         sel  : IF Free(f) THEN {pre.sel} ELSE {v \in SelC(pre, f) : AdmSel(pre, v, f, ctx, adv)},
         baro : IF Free(f) THEN {pre.baro} ELSE {v \in BaroC(pre, f) : AdmBaro(pre, v, f, ctx, adv)},
         roll : IF Free(f) THEN {pre.roll} ELSE {v \in RollC(pre, f) : AdmRoll(pre, v, f, ctx, adv)},
         tar  : IF Free(f) THEN {pre.tar} ELSE {v \in TarC(pre, f) : AdmTar(pre, v, f, ctx, adv)},
         tas  : IF Free(f) THEN {pre.tas} ELSE {v \in TasC(pre, f) : AdmTas(pre, v, f, ctx, adv)},
         hdg  : IF Free(f) \/ IsVel(f) THEN {pre.hdg} ELSE {v \in HdgC(pre, f) : AdmHdg(pre, v, f, ctx, adv)},
         ias  : IF Free(f) THEN {pre.ias} ELSE {v \in IasC(pre, f) : AdmIas(pre, v, f, ctx, adv)},
         mach : IF Free(f) THEN {pre.mach} ELSE {v \in MachC(pre, f) : AdmMach(pre, v, f, ctx, adv)},
         thr  : IF Free(f) THEN {pre.thr} ELSE {v \in ThrC(pre, f) : AdmThr(pre, v, f, ctx)},
         dist : {<<>>},
         ts   : {t}]
      \* the model explores register-coherent outcomes only: the fields of one Comm-B register are
      \* decoded together or left alone together (per-field mixtures are admissible but add nothing)
      AllOr(S) == S = {TRUE} \/ S = {FALSE}
      Coherent(r) == IF ~IsCommB(f) \/ Free(f) THEN TRUE ELSE
                       /\ AllOr({r.gs = pre.gs, r.trk = pre.trk, r.roll = pre.roll, r.tar = pre.tar, r.tas = pre.tas})
                       /\ AllOr({r.hdg = pre.hdg, r.ias = pre.ias, r.mach = pre.mach, r.vr = pre.vr})
                       /\ AllOr({r.sel = pre.sel, r.baro = pre.baro})
                       /\ OneRegister(pre, r)
  IN  {[lat |-> p[1], lon |-> p[2]] @@ r : r \in {rr \in base : Coherent(rr)},
        p \in (IF Free(f) \/ IsSurface(f) THEN {<<pre.lat, pre.lon>>} ELSE {q \in posC : AdmPos(pre, q[1], q[2], f, vd)})}

AuxNext(x, f, t) ==
  [slots |-> SlotsAfter(x.slots, f, t, t),
   adv   |-> IF IsCommB(f) /\ Valid17L(f)
             THEN [b40 |-> x.adv.b40 \/ MBit(f, 9) = 1, b50 |-> x.adv.b50 \/ MBit(f, 16) = 1,
                   b60 |-> x.adv.b60 \/ MBit(f, 24) = 1]
             ELSE x.adv]

(***************************** reference fold ******************************)
\* Written from the text of C11: for each parameter, which formats carry it and with what value.
\* result: <<"val", v>> the frame carries the valid value v; <<"noval">> it carries the parameter but no valid
\* value; <<"blank">> it blanks it; <<"none">> it does not carry it; <<"free">> not fixed by the property.
RefCarry(p, f, gateOpen, advOK(_)) ==
  LET df == DFof(f)  tc == IF df = 17 THEN TCof(f) ELSE -1 IN
  IF df \notin NineDF \/ df = 18 THEN <<"free">>
  ELSE IF p = "alt" THEN
       (IF df \in {4, 20} THEN (LET s == Alt13(AC13of(f)) IN IF s.kind = "val" THEN <<"val", <<s.v>> >> ELSE IF s.kind = "none" THEN <<"noval">> ELSE <<"free">>)
        ELSE IF tc \in 9..18 THEN (LET s == Alt12(AC12of(f)) IN IF s.kind = "val" THEN <<"val", <<s.v>> >> ELSE <<"noval">>)
        ELSE IF tc \in 5..8 THEN <<"blank">>
        ELSE <<"none">>)
  ELSE IF p = "sq" THEN (IF df \in {5, 21} THEN <<"val", <<Squawk(ID13of(f))>> >> ELSE <<"none">>)
  ELSE IF p = "cs" THEN
       (IF tc \in 1..4 THEN <<"val", <<Callsign(f)>> >>
        ELSE IF df \in {20, 21} /\ BdsByte(f) = 32 THEN (IF gateOpen THEN <<"val", <<Callsign(f)>> >> ELSE <<"none">>)
        ELSE <<"none">>)
  ELSE IF p = "cat" THEN (IF tc \in 1..4 THEN <<"val", <<tc, STof(f)>> >> ELSE <<"none">>)
  ELSE IF p \in {"gs", "trk"} THEN
       (IF tc = 19 /\ STof(f) \in {1, 2} THEN
            (IF ~VelHasInfo(f) THEN <<"noval">>
             ELSE IF p = "gs" THEN (IF STof(f) = 1 THEN <<"val", <<SpeedKt(Vew(f), Vns(f))>> >> ELSE <<"free">>)
             ELSE (IF Vew(f) = 0 /\ Vns(f) = 0 THEN <<"free">> ELSE <<"val", <<Track(Vew(f), Vns(f))>> >>))
        ELSE IF p = "trk" /\ tc \in 5..8 THEN <<"free">>
        ELSE IF df \in {20, 21} THEN <<"commb">>
        ELSE <<"none">>)
  ELSE IF p = "vr" THEN
       (IF tc = 19 THEN (IF STof(f) \in {1, 2} THEN (IF VRateHasInfo(f) THEN <<"val", <<VRate(f)>> >> ELSE <<"noval">>) ELSE <<"free">>)
        ELSE IF df \in {20, 21} THEN <<"commb">>
        ELSE <<"none">>)
  ELSE IF p = "ss" THEN (IF tc \in 9..18 \/ tc \in 20..22 THEN <<"val", SurvStatus(f)>> ELSE <<"none">>)
  ELSE IF p = "ver" THEN (IF tc = 31 THEN <<"val", <<Field(f, 73, 75)>> >> ELSE <<"none">>)
  ELSE (IF df = 11 THEN <<"val", CAof(f)>> ELSE IF df = 17 THEN <<"free">> ELSE <<"none">>)    \* "ca"

RefBlankOf(p) == IF p = "cat" THEN <<0, 0>> ELSE IF p = "ca" THEN 0 ELSE IF p = "ss" THEN 32 ELSE <<>>
RefFresh == [p \in Params |-> {RefBlankOf(p)}]

\* new admissible set of parameter p after frame f, from the old set S and the row value actually taken (v1)
RefStep(p, S, f, created, v1, gateOpen) ==
  LET c == RefCarry(p, f, gateOpen, LAMBDA r : TRUE) IN
  IF c[1] = "val" THEN (IF created /\ DFof(f) \in {20, 21} THEN {c[2]} \cup S ELSE {c[2]})
  ELSE IF c[1] = "noval" THEN S \cup {RefBlankOf(p)}
  ELSE IF c[1] = "blank" THEN {RefBlankOf(p)}
  ELSE IF c[1] = "none" THEN S
  ELSE {v1}                                         \* free / Comm-B (judged by C10): follow the row

(******************************** actions **********************************)
Frames == 1..Len(Alphabet)
Ctx0(a) == [U |-> OptU, R |-> OptR, exists |-> a \in DOMAIN table]

LineInfoF(f) ==    \* the gate, for a frame given as digits
  LET isf == Len(f) \in {14, 28} /\ LenAgrees(f) /\ ParityOK(f)
  IN  [f |-> f, isf |-> isf, df |-> IF Len(f) >= 2 THEN DFof(f) ELSE -1, a |-> IF isf THEN Address(f) ELSE 0]

\* evaluated once per frame of the alphabet
LI == [k \in Frames |-> LineInfoF(Alphabet[k])]

Stale(r, t) == (t - r.ts) \div 1000 >= DeleteAfter

Init == /\ table = <<>> /\ aux = <<>> /\ now = 1000000 /\ ctr = 0 /\ cnt = <<>> /\ steps = 0
        /\ ref = <<>> /\ refcnt = <<>> /\ hist = <<>>

Rejected(k) ==
  LET li == LI[k] IN
  /\ ~(li.isf /\ li.a # 0 /\ PassesFilter(li.df, Filt) /\ li.df \in NineDF)
  /\ UNCHANGED <<table, aux, now, ctr, cnt, ref, refcnt>>

\* sweep counter after n further frames starting from c (a sweep when the counter exceeds 10, then it restarts)
RECURSIVE CtrAfter(_, _)
CtrAfter(c, n) == IF n = 0 THEN c ELSE IF c > 10 THEN CtrAfter(1, n - 1) ELSE CtrAfter(c + 1, n - 1)
\* index (1..n) of the first frame of the batch at which a sweep happens, 0 if none
SweepAt(c, n) == IF c > 10 THEN 1 ELSE IF c + n - 1 > 10 THEN 12 - c ELSE 0

Apply(k, n) ==
  LET li == LI[k]
      f  == li.f
      a  == li.a
      ctx == Ctx0(a)
      pre == IF ctx.exists THEN table[a] ELSE ModelBlank
      x   == IF a \in DOMAIN aux THEN aux[a] ELSE NoAuxM
      go  == Gate(pre, ctx)       \* a creating DF20/21 frame may contribute the address only: RefStep widens the set
  IN
  /\ li.isf /\ li.a # 0 /\ PassesFilter(li.df, Filt) /\ li.df \in NineDF
  /\ \E r \in NextRows(pre, f, ctx, x, now) :
       LET t1   == [b \in (DOMAIN table) \cup {a} |-> IF b = a THEN r ELSE table[b]]
           x1   == [b \in (DOMAIN aux) \cup {a} |-> IF b = a THEN AuxNext(x, f, now) ELSE aux[b]]
           rf0  == IF a \in DOMAIN ref THEN ref[a] ELSE [v |-> RefFresh, heard |-> now, since |-> 0]
           rf1  == [v |-> [p \in Params |-> RefStep(p, rf0.v[p], f, ~ctx.exists, r[p], go)], heard |-> now, since |-> 0]
           r1   == [b \in (DOMAIN ref) \cup {a} |-> IF b = a THEN rf1 ELSE ref[b]]
           at   == SweepAt(ctr, n)
           sweep == at > 0
           keep == IF sweep THEN {b \in DOMAIN t1 : ~Stale(t1[b], now)} ELSE DOMAIN t1
           \* reference: frames processed since the aircraft went stale
           r2   == [b \in DOMAIN r1 |-> IF b # a /\ (now - r1[b].heard) \div 1000 >= DeleteAfter
                                        THEN [r1[b] EXCEPT !.since = @ + (IF sweep THEN at ELSE n)] ELSE r1[b]]
       IN  \* a batch repeats a frame whose effect is deterministic and idempotent (time does not pass inside a step)
           /\ (n = 1 \/ NextRows(r, f, [ctx EXCEPT !.exists = TRUE], AuxNext(x, f, now), now) = {r})
           /\ table' = [b \in keep |-> t1[b]]
           /\ aux' = [b \in keep |-> x1[b]]
           /\ ref' = [b \in keep |-> r2[b]]
           /\ ctr' = CtrAfter(ctr, n)
  /\ cnt' = [d \in (DOMAIN cnt) \cup {li.df} |-> IF d = li.df THEN (IF d \in DOMAIN cnt THEN cnt[d] + n ELSE n) ELSE cnt[d]]
  /\ refcnt' = [d \in (DOMAIN refcnt) \cup {li.df} |-> (IF d \in DOMAIN refcnt THEN refcnt[d] ELSE 0) + (IF d = li.df THEN n ELSE 0)]
  /\ UNCHANGED now

Line(k, n) == /\ steps < MaxSteps
              /\ (Rejected(k) \/ Apply(k, n))
              /\ steps' = steps + 1
              /\ hist' = Append(hist, k + 1000 * (n - 1))      \* frame k, n times

Tick(d) == /\ steps < MaxSteps
           /\ now' = now + d
           /\ steps' = steps + 1
           /\ hist' = Append(hist, -d)
           /\ ctr' = IF TickResetsCtr THEN 0 ELSE ctr
           \* the 12-frame bound of C12 is counted within one reader run (a reconnect / new segment restarts it)
           /\ ref' = IF TickResetsCtr THEN [a \in DOMAIN ref |-> [ref[a] EXCEPT !.since = 0]] ELSE ref
           /\ UNCHANGED <<table, aux, cnt, refcnt>>

Next == (\E k \in Frames, n \in Batch : Line(k, n)) \/ (\E d \in Ticks : Tick(d))
Spec == Init /\ [][Next]_vars

(****************************** properties *********************************)
\* C11 (and the history form of C05, C06, C07, C09): every displayed parameter is what the reference fold admits
InvFold == \A a \in DOMAIN table : \A p \in Params : table[a][p] \in ref[a].v[p]
\* C03: one row per address is structural (table is a function); a step touches at most the frame's aircraft
Isolation == [][LET h == hist' IN
                 (Len(h) > Len(hist) /\ h[Len(h)] > 0) =>
                 LET a == LI[h[Len(h)] % 1000].a IN
                 /\ \A b \in (DOMAIN table') \ {a} : b \in DOMAIN table /\ table'[b] = table[b]
                 /\ (DOMAIN table') \subseteq (DOMAIN table) \cup {a}]_vars
\* C12: heard less than delete_after ago => present; last-contact stamp = time last heard;
\*      stale rows survive at most 12 further accepted frames
InvExpiry == /\ DOMAIN ref = DOMAIN table
             /\ \A a \in DOMAIN table : table[a].ts = ref[a].heard /\ ref[a].since <= 12
\* C16: the -c counters are the number of applied frames per DF
InvCount == cnt = refcnt
\* C08: a position is only ever shown if some valid pair supported it (never 0/0 -> something without a pair)
InvRange == \A a \in DOMAIN table : table[a].lat >= -90000000 /\ table[a].lat <= 90000000
                                    /\ table[a].lon >= -180000000 /\ table[a].lon <= 180000000

(****************************** generation *********************************)
\* the VIEW replaces absolute times by ages in whole seconds (saturated) and hides the history
AgeOf(t) == LET s == (now - t) \div 1000 IN IF s > DeleteAfter + 11 THEN DeleteAfter + 11 ELSE s
ViewRow(r) == [r EXCEPT !.ts = AgeOf(r.ts)]
ViewSlot(s) == IF s = <<>> THEN <<>> ELSE <<[s[1] EXCEPT !.tlo = AgeOf(@), !.thi = AgeOf(@)]>>
View == << [a \in DOMAIN table |-> ViewRow(table[a])],
           [a \in DOMAIN aux |-> [slots |-> <<ViewSlot(aux[a].slots[1]), ViewSlot(aux[a].slots[2])>>, adv |-> aux[a].adv]],
           ctr, cnt, steps,
           [a \in DOMAIN ref |-> [v |-> ref[a].v, heard |-> AgeOf(ref[a].heard), since |-> ref[a].since]], refcnt >>
\* prints one scenario per explored transition
Emit == PrintT(<<"SCN", hist'>>)
AlphaText == [k \in Frames |-> HexText(Alphabet[k])]
=============================================================================
