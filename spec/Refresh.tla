-------------------------------- MODULE Refresh --------------------------------
(***************************************************************************)
(* When the table is printed.  The reader keeps one reference stamp: set   *)
(* to (start + update) when a reader run starts and to the time of the     *)
(* refresh whenever the table is printed; after a frame has been applied   *)
(* the table is printed when the number of WHOLE seconds since the stamp   *)
(* exceeds update (so update = -1 prints after every frame, update = 0     *)
(* once a second has passed, update = u not before u + 1 s after the last  *)
(* refresh and not before 2u + 1 s after the start).  Only applied frames  *)
(* trigger a refresh: a silent feed prints nothing.                        *)
(*                                                                         *)
(* No listed property talks about the refresh schedule (C14 / C15 are      *)
(* about what a refresh looks like, C19 says the schedule must not change  *)
(* what is decoded), so this module is checked in drift mode: TLC explores *)
(* it for small arrival patterns, and recorded runs of the real binary on  *)
(* a timed TCP feed are validated against Due with a jitter allowance.     *)
(***************************************************************************)
EXTENDS RefreshRule, Sequences

CONSTANTS Update,      \* seconds, may be negative
          Gaps,        \* set of inter-arrival times (ms) the peer may choose
          MaxFrames
VARIABLES now, stamp, nframes, refreshes      \* refreshes: times of the refreshes so far
vars == <<now, stamp, nframes, refreshes>>

Init == now = 0 /\ stamp = Update * 1000 /\ nframes = 0 /\ refreshes = <<>>
Frame(g) == /\ nframes < MaxFrames
            /\ now' = now + g /\ nframes' = nframes + 1
            /\ IF Due(now + g, stamp, Update)
               THEN refreshes' = Append(refreshes, now + g) /\ stamp' = now + g
               ELSE UNCHANGED <<refreshes, stamp>>
Next == \E g \in Gaps : Frame(g)
Spec == Init /\ [][Next]_vars

\* update < 0: every applied frame is followed by a refresh
EveryFrame == Update < 0 => Len(refreshes) = nframes
\* update >= 0: refreshes are at least update + 1 s apart, the first one not before 2 * update + 1 s after the start
Spaced == Update >= 0 =>
            /\ \A i \in 1..(Len(refreshes) - 1) : refreshes[i + 1] - refreshes[i] >= (Update + 1) * 1000
            /\ (refreshes # <<>> => refreshes[1] >= (2 * Update + 1) * 1000)
\* nothing is withheld: a frame arriving update + 1 s or more after the stamp is followed by a refresh (so the stamp is
\* never older than that at a frame)
Prompt == [][(\E g \in Gaps : Frame(g)) => (now' - stamp >= (Update + 1) * 1000 /\ Update >= 0 => stamp' = now')]_vars
=============================================================================
