----------------------------- MODULE RefreshRule -----------------------------
(* The refresh rule itself, free of constants, shared by Refresh.tla (the state machine) and TraceCheck.tla. *)
EXTENDS Integers
\* whole seconds of a millisecond difference, truncated towards zero like chrono's num_seconds
Secs(d) == IF d >= 0 THEN d \div 1000 ELSE -((-d) \div 1000)
Due(now, stamp, update) == Secs(now - stamp) > update

=============================================================================
