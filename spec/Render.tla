-------------------------------- MODULE Render --------------------------------
(***************************************************************************)
(* The table refresh as text (C14, C15).  Text = sequence of code points.  *)
(* Columns are PARSED from the printed header and separator (so a          *)
(* consistent change of layout is not an alarm): a column is a run of      *)
(* dashes in the separator, its name the header text above it.  Each       *)
(* column is followed by one gutter character (a blank, or a one-character *)
(* source marker - unconstrained).                                         *)
(***************************************************************************)
EXTENDS Bits, ModeS, FiniteSets

Dash == 45
Blank == 32

\* columns of a separator line: sequence of [s, w] (start index, width)
RECURSIVE ColsR(_, _, _)
ColsR(sep, i, acc) ==
  IF i > Len(sep) THEN acc
  ELSE IF sep[i] # Dash THEN ColsR(sep, i + 1, acc)
  ELSE LET RECURSIVE EndOf(_)
           EndOf(j) == IF j + 1 <= Len(sep) /\ sep[j + 1] = Dash THEN EndOf(j + 1) ELSE j
           e == EndOf(i)
       IN  ColsR(sep, e + 1, Append(acc, [s |-> i, w |-> e - i + 1]))
Cols(sep) == ColsR(sep, 1, <<>>)

Trim(t) == LET nb == {i \in 1..Len(t) : t[i] # Blank} IN
           IF nb = {} THEN <<>>
           ELSE SubSeq(t, CHOOSE i \in nb : \A j \in nb : i <= j, CHOOSE i \in nb : \A j \in nb : i >= j)
Cell(line, c) == IF c.s + c.w - 1 <= Len(line) THEN SubSeq(line, c.s, c.s + c.w - 1) ELSE <<>>
ColName(header, c) == Trim(Cell(header, c))

\* decimal digits of a non-negative integer
RECURSIVE DigitsR(_, _)
DigitsR(n, acc) == IF n < 10 THEN <<48 + n>> \o acc ELSE DigitsR(n \div 10, <<48 + (n % 10)>> \o acc)
Digits(n) == DigitsR(n, <<>>)
IntText(v) == IF v < 0 THEN <<45>> \o Digits(-v) ELSE Digits(v)
RECURSIVE Rep(_, _)
Rep(ch, n) == IF n <= 0 THEN <<>> ELSE <<ch>> \o Rep(ch, n - 1)
PadL(t, w) == Rep(Blank, w - Len(t)) \o t          \* right-aligned
PadR(t, w) == t \o Rep(Blank, w - Len(t))          \* left-aligned
ZeroPad(t, w) == Rep(48, w - Len(t)) \o t
\* fixed-point text: v is the value times 10^k, shown with d <= k decimals; requires the dropped digits to be zero
Fixed(v, k, d) ==
  LET a == Abs(v)
      p == 10^k
      ip == a \div p
      fr == (a % p) \div (10^(k - d))
  IN  (IF v < 0 THEN <<45>> ELSE <<>>) \o Digits(ip) \o <<46>> \o ZeroPad(Digits(fr), d)
\* admissible texts when the value carries more digits than are printed: truncation of the magnitude or the next
\* unit up (the implementation rounds the binary value; which way is not decidable from the fixed-point projection)
FixedSet(v, k, d) ==
  LET u == 10^(k - d)
      a == Abs(v)
      lo == (a \div u) * u
      sg == IF v < 0 THEN -1 ELSE 1
  IN  IF a % u = 0 THEN {Fixed(v, k, d)} ELSE {Fixed(sg * lo, k, d), Fixed(sg * (lo + u), k, d)}
PadLSet(S, w) == {PadL(t, w) : t \in S}
HexUp6(a) == [i \in 1..6 |-> HexChar((a \div (16^(6 - i))) % 16)]

Name(s) == s    \* names are written as code point tuples below
N_ICAO == <<73, 67, 65, 79>>
N_RG == <<82, 71>>
N_SQWK == <<83, 81, 87, 75>>
N_W == <<87>>
N_CALLSIGN == <<67, 65, 76, 76, 83, 73, 71, 78>>
N_LATITUDE == <<76, 65, 84, 73, 84, 85, 68, 69>>
N_LONGITUDE == <<76, 79, 78, 71, 73, 84, 85, 68, 69>>
N_DIST == <<68, 73, 83, 84>>
N_ALTB == <<65, 76, 84, 32, 66>>
N_ALTG == <<65, 76, 84, 32, 71>>
N_ALTS == <<65, 76, 84, 32, 83>>
N_BARO == <<66, 65, 82, 79>>
N_VRATE == <<86, 82, 65, 84, 69>>
N_TRK == <<84, 82, 75>>
N_HDG == <<72, 68, 71>>
N_GSP == <<71, 83, 80>>
N_TAS == <<84, 65, 83>>
N_IAS == <<73, 65, 83>>
N_MACH == <<77, 65, 67, 72>>
N_RLL == <<82, 76, 76>>
N_TAR == <<84, 65, 82>>
N_TEMP == <<84, 69, 77, 80>>
N_WND == <<87, 78, 68>>
N_WDR == <<87, 68, 82>>
N_HUM == <<72, 85, 77>>
N_PRES == <<80, 82, 69, 83>>
N_TB == <<84, 66>>
N_VX == <<86, 88>>
N_DF == <<68, 70>>
N_TC == <<84, 67>>
N_V == <<86>>
N_S == <<83>>
N_PTH == <<80, 84, 72>>
N_LC == <<76, 67>>

GroupA == {N_ALTG, N_ALTS, N_BARO}
GroupS == {N_TAS, N_IAS, N_MACH}
GroupAng == {N_RLL, N_TAR}
GroupW == {N_TEMP, N_WND, N_WDR, N_HUM, N_PRES, N_TB}
GroupE == {N_VX, N_DF, N_TC, N_V, N_S, N_PTH}
BaseCols == {N_ICAO, N_RG, N_SQWK, N_W, N_CALLSIGN, N_LATITUDE, N_LONGITUDE, N_DIST, N_ALTB, N_VRATE, N_TRK, N_HDG, N_GSP, N_LC}

OptNum(o, w) == IF o = <<>> THEN Rep(Blank, w) ELSE PadL(IntText(o[1]), w)
HasPos(r) == r.lat # 0 /\ r.lon # 0

\* the set of admissible texts of the cell of column `name` (width w) for row r; {} = column not known
CellTexts(name, w, r) ==
  IF name = N_ICAO THEN {HexUp6(r.a)}
  ELSE IF name = N_RG THEN {PadR(r.regcp, w)}
  ELSE IF name = N_SQWK THEN {IF r.sq = <<>> THEN Rep(Blank, w) ELSE ZeroPad(Digits(r.sq[1]), 4)}
  ELSE IF name = N_W THEN {PadR(Wake(r.cat[1], r.cat[2]), w)}
  ELSE IF name = N_CALLSIGN THEN {IF r.cs = <<>> THEN Rep(Blank, w) ELSE PadR(r.cs[1], w)}
  ELSE IF name = N_LATITUDE THEN IF HasPos(r) THEN PadLSet(FixedSet(r.lat, 6, 5), w) ELSE {Rep(Blank, w)}
  ELSE IF name = N_LONGITUDE THEN IF HasPos(r) THEN PadLSet(FixedSet(r.lon, 6, 5), w) ELSE {Rep(Blank, w)}
  ELSE IF name = N_DIST THEN IF r.dist = <<>> THEN {Rep(Blank, w)} ELSE PadLSet(FixedSet(r.dist[1], 3, 1), w)
  ELSE IF name = N_ALTB THEN {OptNum(r.alt, w)}
  ELSE IF name = N_ALTG THEN {OptNum(r.altg, w)}
  ELSE IF name = N_ALTS THEN {OptNum(r.sel, w)}
  ELSE IF name = N_BARO THEN {OptNum(r.baro, w)}
  ELSE IF name = N_VRATE THEN {OptNum(r.vr, w)}
  ELSE IF name = N_TRK THEN {OptNum(r.trk, w)}
  ELSE IF name = N_HDG THEN {OptNum(r.hdg, w)}
  ELSE IF name = N_GSP THEN {OptNum(r.gs, w)}
  ELSE IF name = N_TAS THEN {OptNum(r.tas, w)}
  ELSE IF name = N_IAS THEN {OptNum(r.ias, w)}
  ELSE IF name = N_MACH THEN IF r.mach = <<>> THEN {Rep(Blank, w)} ELSE PadLSet(FixedSet(r.mach[1], 3, 2), w)
  ELSE IF name = N_RLL THEN {OptNum(r.roll, w)}
  ELSE IF name = N_TAR THEN {OptNum(r.tar, w)}
  ELSE IF name = N_TEMP THEN IF r.temp = <<>> THEN {Rep(Blank, w)} ELSE PadLSet(FixedSet(r.temp[1], 2, 1), w)
  ELSE IF name = N_WND THEN {IF r.wind = <<>> THEN Rep(Blank, w) ELSE PadL(IntText(r.wind[1][1]), w)}
  ELSE IF name = N_WDR THEN {IF r.wind = <<>> THEN Rep(Blank, w) ELSE PadL(IntText(r.wind[1][2]), w)}
  ELSE IF name = N_HUM THEN {OptNum(r.hum, w)}
  ELSE IF name = N_PRES THEN {OptNum(r.pres, w)}
  ELSE IF name = N_TB THEN {OptNum(r.turb, w)}
  ELSE IF name = N_VX THEN {IntText(r.cat[1]) \o IntText(r.cat[2])}
  ELSE IF name = N_DF THEN {IF r.ldf = 0 THEN Rep(Blank, w) ELSE PadL(IntText(r.ldf), w)}
  ELSE IF name = N_TC THEN {IF r.ltc = 0 THEN Rep(Blank, w) ELSE PadL(IntText(r.ltc), w)}
  ELSE IF name = N_V THEN {OptNum(r.ver, w)}
  ELSE IF name = N_S THEN {<<r.ss>>}
  \* ages: time passes between building the row and printing it, so k and k+1 are both accepted
  ELSE IF name = N_LC THEN {PadL(IntText(r.ts \div 1000), w), PadL(IntText(r.ts \div 1000 + 1), w)}
  ELSE IF name = N_PTH THEN
       LET A(o) == IF o = <<>> THEN {Blank}
                   ELSE {HexChar(((o[1] \div 1000) \div 10) % 16), HexChar((((o[1] \div 1000) + 1) \div 10) % 16)}
       IN  {<<p, t, h>> : p \in A(r.pts), t \in A(r.tts), h \in A(r.hts)}
  ELSE {}

\* every value of the row fits its column
Fits(cols, header, r) == \A k \in 1..Len(cols) :
  LET ts == CellTexts(ColName(header, cols[k]), cols[k].w, r) IN \A t \in ts : Len(t) = cols[k].w

\* the row line renders r under the parsed columns
RowOK(line, cols, header, r) == \A k \in 1..Len(cols) :
  LET ts == CellTexts(ColName(header, cols[k]), cols[k].w, r) IN
  ts = {} \/ Cell(line, cols[k]) \in ts

\* a source marker annotates a value: where the cell of ALT B, ALT S, VRATE, TRK or HDG is blank, the gutter after it is blank
MarkedCols == {N_ALTB, N_ALTS, N_VRATE, N_TRK, N_HDG}
MarkersOK(line, cols, header) == \A k \in 1..Len(cols) :
  (ColName(header, cols[k]) \in MarkedCols /\ Cell(line, cols[k]) = Rep(Blank, cols[k].w) /\ cols[k].s + cols[k].w <= Len(line))
     => line[cols[k].s + cols[k].w] = Blank

\* the ACAS threat flag (BDS 3,0) is the one-character gutter after the SQWK cell: its character when known, blank when not -
\* whatever the squawk cell holds
ThreatOK(line, cols, header, r) == \A k \in 1..Len(cols) :
  (ColName(header, cols[k]) = N_SQWK /\ cols[k].s + cols[k].w <= Len(line))
     => line[cols[k].s + cols[k].w] = (IF r.thr = <<>> THEN Blank ELSE r.thr[1])

(******************************** C15 *************************************)
\* key of a row for an order letter: <<>> blank, else <<number>>; category: 8 * tc + ca
KeyOf(letter, r) ==
  IF letter = 115 THEN r.sq                                         \* s
  ELSE IF letter \in {97, 65} THEN r.alt                            \* a A
  ELSE IF letter \in {118, 86} THEN r.vr                            \* v V
  ELSE IF letter \in {78, 83} THEN (IF HasPos(r) THEN <<r.lat>> ELSE <<>>)     \* N S
  ELSE IF letter \in {87, 69} THEN (IF HasPos(r) THEN <<r.lon>> ELSE <<>>)     \* W E
  ELSE IF letter \in {100, 68} THEN r.dist                          \* d D
  ELSE IF letter = 99 THEN <<8 * r.cat[1] + r.cat[2]>>              \* c
  ELSE <<>>
KeyLetters == {115, 97, 65, 118, 86, 78, 83, 87, 69, 100, 68, 99}
\* direction fixed by the statement: s and a ascending, A descending; the others either way
NonDecr(s) == \A i \in 1..(Len(s) - 1) : s[i] <= s[i + 1]
NonIncr(s) == \A i \in 1..(Len(s) - 1) : s[i] >= s[i + 1]
Monotone(letter, ks) ==
  IF letter \in {115, 97} THEN NonDecr(ks)
  ELSE IF letter = 65 THEN NonIncr(ks)
  ELSE NonDecr(ks) \/ NonIncr(ks)
LastKey(o) == LET ix == {i \in 1..Len(o) : o[i] \in KeyLetters} IN
              IF ix = {} THEN 0 ELSE o[CHOOSE i \in ix : \A j \in ix : i >= j]
=============================================================================
