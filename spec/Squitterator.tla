----------------------------- MODULE Squitterator -----------------------------
(***************************************************************************)
(* The decoder pipeline as a state machine:                                *)
(*   line -> digits -> frame gate -> address -> filter/count -> decode ->  *)
(*   update one row -> sweep -> (refresh)                                  *)
(* This module holds the pure part that both the bounded models (MC_x.tla) *)
(* and the trace validator (TraceCheck) use: what a line is, and for every *)
(* parameter of a row the set of values it may have after a frame          *)
(* ("Adm" = admissible).  Exact where the properties are exact,            *)
(* nondeterministic where they are silent (DESIGN.md 3.4).                 *)
(*                                                                         *)
(* A row is a record; optional values are sequences of length 0 or 1.      *)
(*   alt sq cs cat ca caps gs trk vr ss ver lat lon dist ts                *)
(*   sel baro roll tar tas hdg ias mach thr                                *)
(* (rows read from a trace carry more fields; they are ignored here).      *)
(***************************************************************************)
EXTENDS ModeS, Cpr, CommB

(******************************* the gate *********************************)
\* what the reader does with one line, as far as the table is concerned
LineInfo(bytes) ==
  LET d   == Clean(bytes)
      f   == Strip(d)
      isf == Len(f) \in {14, 28} /\ LenAgrees(f) /\ ParityOK(f)
  IN  [nd |-> Len(d), f |-> f, isf |-> isf,
       df |-> IF Len(f) > 0 THEN DFof(f) ELSE -1,
       a  |-> IF isf THEN Address(f) ELSE 0]

\* filt: <<>> (no -f) or <<sequence of DF numbers>>
PassesFilter(df, filt) == IF filt = <<>> THEN TRUE ELSE df \in ToSet(filt[1])
\* the frame is applied to the table
Applied(li, filt) == li.isf /\ li.a # 0 /\ PassesFilter(li.df, filt)

(***************************** the blank row ******************************)
BlankRow == [alt |-> <<>>, sq |-> <<>>, cs |-> <<>>, cat |-> <<0, 0>>, ca |-> 0,
             caps |-> <<0, 0, 0, 0, 0, 0>>, gs |-> <<>>, trk |-> <<>>, vr |-> <<>>, ss |-> 32, ver |-> <<>>,
             lat |-> 0, lon |-> 0, dist |-> <<>>, sel |-> <<>>, baro |-> <<>>, roll |-> <<>>, tar |-> <<>>,
             tas |-> <<>>, hdg |-> <<>>, ias |-> <<>>, mach |-> <<>>, thr |-> <<>>,
             ldf |-> 0, ltc |-> 0, altg |-> <<>>, gm |-> <<>>, pts |-> <<>>, ts |-> 0,
             alts |-> 32, trks |-> 32, hdgs |-> 32, vrs |-> 95, sels |-> 32]

(************************* format classification **************************)
IsExt(f)     == DFof(f) = 17                       \* DF18 content is unconstrained (DESIGN Appendix B)
TCx(f)       == IF IsExt(f) THEN TCof(f) ELSE -1
IsIdent(f)   == TCx(f) \in 1..4
IsSurface(f) == TCx(f) \in 5..8
IsAirPos(f)  == TCx(f) \in 9..18
IsVel(f)     == TCx(f) = 19
IsVel12(f)   == TCx(f) = 19 /\ STof(f) \in {1, 2}
IsGnssPos(f) == TCx(f) \in 20..22
IsOpStat(f)  == TCx(f) = 31
IsCommB(f)   == DFof(f) \in {20, 21}
Free(f)      == DFof(f) \notin NineDF \/ DFof(f) = 18    \* no property constrains the content

\* keeps-or-blank: when the carrying frame has no valid value
NoVal(prev, v) == v = <<>> \/ v = prev

(***************************************************************************)
(* ctx: [U, R : BOOLEAN, exists : BOOLEAN]  (exists = the aircraft had a   *)
(* row before this frame).  pre = the row before (BlankRow when created).  *)
(* A DF20/21 frame that creates the row may contribute the address only.   *)
(***************************************************************************)
AddrOnly(f, ctx) == IsCommB(f) /\ ~ctx.exists

(***************************** C05 altitude *******************************)
AltSpecOf(f) == IF DFof(f) \in {4, 20} THEN Alt13(AC13of(f)) ELSE Alt12(AC12of(f))
CarriesAlt(f) == DFof(f) \in {4, 20} \/ IsAirPos(f)
AdmAlt(pre, v, f, ctx) ==
  IF Free(f) THEN TRUE
  ELSE IF CarriesAlt(f) THEN
       LET s == AltSpecOf(f) IN
       \/ s.kind = "any"
       \/ s.kind = "val" /\ v = <<s.v>>
       \/ s.kind = "none" /\ NoVal(pre.alt, v)
       \/ AddrOnly(f, ctx) /\ v = pre.alt
  ELSE IF IsSurface(f) THEN v = <<>>                \* blanked by a surface squitter
  ELSE v = pre.alt

(****************************** C06 squawk ********************************)
CarriesSq(f) == DFof(f) \in {5, 21}
AdmSq(pre, v, f, ctx) ==
  IF Free(f) THEN TRUE
  ELSE IF CarriesSq(f) THEN v = <<Squawk(ID13of(f))>> \/ (AddrOnly(f, ctx) /\ v = pre.sq)
  ELSE v = pre.sq

(************************* C10 gating of Comm-B ***************************)
Gate(pre, ctx) == ctx.R \/ pre.ca >= 4
AdvRow(pre, ctx, k) == ctx.R \/ pre.caps[k] = 1      \* k: 3 = BDS 4,0; 5 = 5,0; 6 = 6,0 (index in caps)
\* "a BDS 1,7 report advertised the register": liberal history flag kept by the caller
\* adv = [b40, b50, b60 : BOOLEAN] - ever advertised by an accepted report of this aircraft
AdvEver(adv, ctx, reg) == ctx.R \/ adv[reg]

\* strict sufficient condition for "this reply is register X and must be decoded"
Must40(pre, f, ctx) == ctx.exists /\ Gate(pre, ctx) /\ AdvRow(pre, ctx, 3) /\ ~Explicit(f) /\ Valid40S(f) /\ NonZero40(f) /\ ~Earlier40(f)
Must50(pre, f, ctx) == ctx.exists /\ Gate(pre, ctx) /\ AdvRow(pre, ctx, 5) /\ ~Explicit(f) /\ Valid50S(f) /\ NonZero50(f)
                       /\ Plausible50(f) /\ ~Earlier50(f)
Must60(pre, f, ctx) == ctx.exists /\ Gate(pre, ctx) /\ AdvRow(pre, ctx, 6) /\ ~Explicit(f) /\ Valid60S(f) /\ NonZero60(f)
                       /\ Plausible60(f) /\ ~Earlier60(f)
\* liberal necessary condition for "a field of register X may change"
May40(pre, f, ctx, adv) == Gate(pre, ctx) /\ AdvEver(adv, ctx, "b40") /\ Valid40L(f)
May50(pre, f, ctx, adv) == Gate(pre, ctx) /\ AdvEver(adv, ctx, "b50") /\ Valid50L(f)
May60(pre, f, ctx, adv) == Gate(pre, ctx) /\ AdvEver(adv, ctx, "b60") /\ Valid60L(f)
May20(pre, f, ctx) == Gate(pre, ctx) /\ BdsByte(f) = 32
Must20(pre, f, ctx) == Gate(pre, ctx) /\ BdsByte(f) = 32 /\ ctx.exists
May30(pre, f, ctx) == Gate(pre, ctx) /\ BdsByte(f) = 48
May17(pre, f, ctx) == Gate(pre, ctx) /\ Valid17L(f)
Must17(pre, f, ctx) == Gate(pre, ctx) /\ Valid17S(f) /\ ctx.exists

\* a Comm-B derived field p of a DF20/21 frame: unchanged, or explained by a register that may apply;
\* and equal to the decoding when a register must apply
AdmCommB(pre, v, prev, may, ok, must) ==
  /\ (v # prev => may /\ (ok \/ v = <<>>))
  /\ (must => ok)

(****************************** C07 callsign ******************************)
AdmCs(pre, v, f, ctx) ==
  IF Free(f) THEN TRUE
  ELSE IF IsIdent(f) THEN v = <<Callsign(f)>>
  ELSE IF IsCommB(f) THEN AdmCommB(pre, v, pre.cs, May20(pre, f, ctx), v = <<Callsign(f)>>, Must20(pre, f, ctx))
  ELSE v = pre.cs
AdmCat(pre, v, f, ctx) ==
  IF Free(f) THEN TRUE
  ELSE IF IsIdent(f) THEN v = <<TCof(f), STof(f)>>
  ELSE v = pre.cat

(****************************** C09 velocity ******************************)
AdmGs(pre, v, f, ctx, adv) ==
  IF Free(f) THEN TRUE
  ELSE IF IsVel12(f) THEN
       IF VelHasInfo(f) THEN
            IF STof(f) = 1 THEN v = <<SpeedKt(Vew(f), Vns(f))>>
            ELSE Len(v) = 1 /\ SpeedOK4(Vew(f), Vns(f), v[1])
       ELSE NoVal(pre.gs, v)
  ELSE IF IsCommB(f) THEN AdmCommB(pre, v, pre.gs, May50(pre, f, ctx, adv), v = <<Gs50(f)>>, Must50(pre, f, ctx))
  ELSE v = pre.gs
AdmTrk(pre, v, f, ctx, adv) ==
  IF Free(f) \/ IsSurface(f) THEN TRUE              \* surface squitters carry a ground track: unconstrained
  ELSE IF IsVel12(f) THEN
       IF VelHasInfo(f) THEN (Vew(f) = 0 /\ Vns(f) = 0) \/ v = <<Track(Vew(f), Vns(f))>>
       ELSE NoVal(pre.trk, v)
  ELSE IF IsCommB(f) THEN AdmCommB(pre, v, pre.trk, May50(pre, f, ctx, adv),
                                   Len(v) = 1 /\ TrackOK50(f, v[1]), Must50(pre, f, ctx))
  ELSE v = pre.trk
AdmVr(pre, v, f, ctx, adv) ==
  IF Free(f) THEN TRUE
  ELSE IF IsVel(f) THEN
       IF STof(f) \in {1, 2} THEN (IF VRateHasInfo(f) THEN v = <<VRate(f)>> ELSE NoVal(pre.vr, v))
       ELSE TRUE                                    \* subtypes 3/4 and reserved: same field, not constrained by C09
  ELSE IF IsCommB(f) THEN AdmCommB(pre, v, pre.vr, May60(pre, f, ctx, adv),
                                   Len(v) = 1 /\ VRateOK60(f, v[1]), Must60(pre, f, ctx))
  ELSE v = pre.vr

(********************** C11 status / version / capability *****************)
AdmSs(pre, v, f, ctx) ==
  IF Free(f) THEN TRUE
  ELSE IF IsAirPos(f) \/ IsGnssPos(f) THEN v = SurvStatus(f)
  ELSE v = pre.ss
AdmVer(pre, v, f, ctx) ==
  IF Free(f) THEN TRUE
  ELSE IF IsOpStat(f) THEN v = <<Field(f, 73, 75)>>
  ELSE v = pre.ver
AdmCa(pre, v, f, ctx) ==
  IF DFof(f) = 18 THEN v = pre.ca      \* bits 6-8 of DF18 are the CF field (kind of equipment), not a transponder capability
  ELSE IF Free(f) THEN TRUE
  ELSE IF DFof(f) = 11 THEN v = CAof(f)
  ELSE IF DFof(f) = 17 THEN v = pre.ca \/ v = CAof(f)     \* two-sided: recorded where the path records it
  ELSE v = pre.ca

(*************************** C10 Comm-B fields ****************************)
\* A reply is ONE register (explicit 2,0 / 3,0 by its BDS byte, otherwise the first of 1,7 > 4,0 > 5,0 > 6,0 whose rules it
\* satisfies): the parameters of at most one register change with it.  A reply that is a valid BDS 5,0 does not carry a
\* heading, however much its bits also look like a BDS 6,0.
RegisterGroups(pre, post) ==
  << <<post.caps[3], post.caps[5], post.caps[6]>> # <<pre.caps[3], pre.caps[5], pre.caps[6]>>,
     post.cs # pre.cs,
     post.thr # pre.thr,
     post.sel # pre.sel \/ post.baro # pre.baro,
     post.roll # pre.roll \/ post.tar # pre.tar \/ post.tas # pre.tas \/ post.gs # pre.gs \/ post.trk # pre.trk,
     post.hdg # pre.hdg \/ post.ias # pre.ias \/ post.mach # pre.mach \/ post.vr # pre.vr >>
OneRegister(pre, post) == LET g == RegisterGroups(pre, post) IN \A i, j \in 1..6 : (g[i] /\ g[j]) => i = j

AdmCaps(pre, v, f, ctx) ==
  IF Free(f) THEN TRUE
  ELSE IF IsCommB(f) THEN
       LET c  == Caps17(f)
           ok == v[3] = c.b40 /\ v[5] = c.b50 /\ v[6] = c.b60
       IN  /\ (<<v[3], v[5], v[6]>> # <<pre.caps[3], pre.caps[5], pre.caps[6]>> => May17(pre, f, ctx) /\ ok)
           /\ (Must17(pre, f, ctx) => ok)
  ELSE <<v[3], v[5], v[6]>> = <<pre.caps[3], pre.caps[5], pre.caps[6]>>
AdmSel(pre, v, f, ctx, adv) ==
  IF Free(f) THEN TRUE
  ELSE IF IsCommB(f) THEN AdmCommB(pre, v, pre.sel, May40(pre, f, ctx, adv), Len(v) = 1 /\ SelOK40(f, v[1]), Must40(pre, f, ctx))
  ELSE v = pre.sel
AdmBaro(pre, v, f, ctx, adv) ==
  IF Free(f) THEN TRUE
  ELSE IF IsCommB(f) THEN AdmCommB(pre, v, pre.baro, May40(pre, f, ctx, adv), Len(v) = 1 /\ BaroOK40(f, v[1]), Must40(pre, f, ctx))
  ELSE v = pre.baro
AdmRoll(pre, v, f, ctx, adv) ==
  IF Free(f) THEN TRUE
  ELSE IF IsCommB(f) THEN AdmCommB(pre, v, pre.roll, May50(pre, f, ctx, adv), Len(v) = 1 /\ RollOK50(f, v[1]), Must50(pre, f, ctx))
  ELSE v = pre.roll
AdmTar(pre, v, f, ctx, adv) ==
  IF Free(f) THEN TRUE
  ELSE IF IsCommB(f) THEN AdmCommB(pre, v, pre.tar, May50(pre, f, ctx, adv), Len(v) = 1 /\ TarOK50(f, v[1]), Must50(pre, f, ctx))
  ELSE v = pre.tar
AdmTas(pre, v, f, ctx, adv) ==
  IF Free(f) THEN TRUE
  ELSE IF IsCommB(f) THEN AdmCommB(pre, v, pre.tas, May50(pre, f, ctx, adv), v = <<Tas50(f)>>, Must50(pre, f, ctx))
  ELSE v = pre.tas
AdmHdg(pre, v, f, ctx, adv) ==
  IF Free(f) \/ IsVel(f) THEN TRUE                  \* TC19 subtypes 3/4 carry a heading: unconstrained
  ELSE IF IsCommB(f) THEN AdmCommB(pre, v, pre.hdg, May60(pre, f, ctx, adv), Len(v) = 1 /\ HdgOK60(f, v[1]), Must60(pre, f, ctx))
  ELSE v = pre.hdg
AdmIas(pre, v, f, ctx, adv) ==
  IF Free(f) THEN TRUE
  ELSE IF IsCommB(f) THEN AdmCommB(pre, v, pre.ias, May60(pre, f, ctx, adv), v = <<Ias60(f)>>, Must60(pre, f, ctx))
  ELSE v = pre.ias
AdmMach(pre, v, f, ctx, adv) ==
  IF Free(f) THEN TRUE
  ELSE IF IsCommB(f) THEN AdmCommB(pre, v, pre.mach, May60(pre, f, ctx, adv), Len(v) = 1 /\ MachOK60(f, v[1]), Must60(pre, f, ctx))
  ELSE v = pre.mach
\* threat flag: shown (non-blank) or not
AdmThr(pre, v, f, ctx) ==
  IF Free(f) THEN TRUE
  ELSE IF IsCommB(f) THEN /\ (v # pre.thr => May30(pre, f, ctx) /\ ((v # <<>>) <=> Threat30(f)))
                          \* conversely: an explicit BDS 3,0 reply on an existing row with the gate open IS decoded - a reply that
                          \* reports no threat clears the flag
                          \* (strictly a 3,0 report: threat-type indicator not the unassigned value 3, ARA bits 8-14 clear)
                          /\ ((ctx.exists /\ May30(pre, f, ctx) /\ MField(f, 29, 30) # 3 /\ MField(f, 16, 22) = 0)
                                 => ((v # <<>>) <=> Threat30(f)))
  ELSE v = pre.thr

(***************************************************************************)
(* C08 pairing.  slots: <<e, o>> each <<>> or <<[y, x, tlo, thi, taint]>>  *)
(* = the latest airborne-position squitter of that parity with non-zero    *)
(* CPR fields, received at a time in tlo..thi (ms).  A frame with a zero   *)
(* field "counts as not received"; whether it also makes the decoder       *)
(* forget the previous frame of its parity is not fixed by the property,   *)
(* so it taints that slot (pairs using a tainted slot are unconstrained).  *)
(***************************************************************************)
CprY(f) == Field(f, 55, 71)
CprX(f) == Field(f, 72, 88)
CprI(f) == Bit(f, 54)
SlotsAfter(slots, f, tlo, thi) ==
  IF IsSurface(f) THEN
       \* surface-position squitters use the same even/odd memory in the decoder; whether they replace an
       \* airborne frame there is outside C08: the slot of that parity becomes tainted
       LET i == CprI(f) IN
       [slots EXCEPT ![i + 1] = <<[y |-> CprY(f), x |-> CprX(f), tlo |-> tlo, thi |-> thi, taint |-> TRUE]>>]
  ELSE IF ~IsAirPos(f) THEN slots
  ELSE LET i == CprI(f) IN
       IF CprY(f) = 0 \/ CprX(f) = 0
       THEN [slots EXCEPT ![i + 1] = IF slots[i + 1] = <<>> THEN <<>> ELSE <<[slots[i + 1][1] EXCEPT !.taint = TRUE]>>]
       ELSE [slots EXCEPT ![i + 1] = <<[y |-> CprY(f), x |-> CprX(f), tlo |-> tlo, thi |-> thi, taint |-> FALSE]>>]

\* verdict for the frame just received (already in slots'): "decode" with the position, "keep", or "free"
PairVerdict(slots1, f) ==
  IF ~IsAirPos(f) THEN [k |-> "keep"]
  ELSE LET i == CprI(f)  me == slots1[i + 1]  ot == slots1[2 - i] IN
       IF CprY(f) = 0 \/ CprX(f) = 0 THEN [k |-> "keep"]
       ELSE IF ot = <<>> THEN [k |-> "keep"]
       ELSE IF ot[1].taint THEN [k |-> "free"]
       ELSE LET dmin == me[1].tlo - ot[1].thi          \* smallest possible time difference
                dmax == me[1].thi - ot[1].tlo          \* largest
                e == IF i = 0 THEN me[1] ELSE ot[1]
                o == IF i = 1 THEN me[1] ELSE ot[1]
                inwin  == dmax < 10000 /\ dmin > -10000
                outwin == dmin >= 10000 \/ dmax <= -10000
            IN  IF ~inwin /\ ~outwin THEN [k |-> "free"]
                ELSE IF outwin THEN [k |-> "keep"]
                ELSE IF ~CprInScope(e.y, o.y) THEN [k |-> "free"]        \* |lat| >= 87: outside C08
                ELSE LET p == CprDecode(e.y, e.x, o.y, o.x, i) IN
                     IF p = NoPos THEN [k |-> "keep"] ELSE [k |-> "decode", lat |-> p[1], lon |-> p[2]]

\* position fields after the frame: lat, lon in micro-degrees (0,0 = none shown)
AdmPos(pre, lat, lon, f, verdict) ==
  IF Free(f) \/ IsSurface(f) THEN TRUE              \* surface positions share the fields: unconstrained
  ELSE IF verdict.k = "free" THEN TRUE
  ELSE IF verdict.k = "decode" THEN Abs(lat - verdict.lat) <= 2 /\ Abs(lon - verdict.lon) <= 2
  ELSE lat = pre.lat /\ lon = pre.lon

\* distance column: obs = <<>> or <<olat, olon>> (micro-degrees); dist in metres
AdmDist(pre, v, lat, lon, f, verdict, obs) ==
  IF Free(f) \/ IsSurface(f) \/ verdict.k = "free" THEN TRUE
  ELSE IF verdict.k = "keep" THEN v = pre.dist
  ELSE IF obs = <<>> THEN TRUE
  ELSE IF ArcKind(obs[1], obs[2], lat, lon) = "general" THEN
       \* general geometry: coarse haversine (table interpolation), tolerance 1 km + 1.5 %
       Len(v) = 1 /\ LET d == DistMetres(ArcGeneral(obs[1], obs[2], lat, lon)) IN Abs(v[1] - d) <= 1000 + d \div 66
  ELSE Len(v) = 1 /\ Abs(v[1] - DistMetres(ArcMicroDeg(obs[1], obs[2], lat, lon))) <= 50

(***************************************************************************)
(* DRIFT: implementation-shaped detail that no listed property owns.       *)
(* These predicates describe what the code does today for the remaining    *)
(* row fields, so that the specification covers the whole row.  A mismatch *)
(* is reported as "model drift" (a note, never a VIOLATION): either the    *)
(* code changed in an area nobody promised anything about, or this         *)
(* description is out of date.  path: TRUE = Plane::update (-U, or DF>=20),*)
(* FALSE = update_from_downlink (default, DF < 20, and every row creation).*)
(***************************************************************************)
UpdPath(f, ctx) == ctx.exists /\ (ctx.U \/ DFof(f) >= 20)
IsExt18(f) == DFof(f) \in {17, 18}
\* last DF: only Plane::update records it
DrfLdf(pre, v, f, ctx) == v = IF UpdPath(f, ctx) THEN DFof(f) ELSE pre.ldf
\* last type code: every extended squitter that is decoded as one
DrfLtc(pre, v, f, ctx) ==
  v = IF DFof(f) = 17 \/ (DFof(f) = 18 /\ UpdPath(f, ctx)) THEN TCof(f) ELSE pre.ltc
\* GNSS altitude column: TC 20-22 copy ME bits 17-28 unscaled; TC19 adds the GNSS/baro difference to a known altitude
GnssDelta(f) == LET d == Field(f, 82, 88) IN IF d = 0 THEN <<>> ELSE <<IF Bit(f, 81) = 1 THEN -25 * d ELSE 25 * d>>
DrfAltg(pre, v, f, ctx) ==
  IF ~(DFof(f) = 17 \/ (DFof(f) = 18 /\ UpdPath(f, ctx))) THEN v = pre.altg
  ELSE IF TCof(f) \in 20..22 THEN v = <<Field(f, 49, 60)>>
  ELSE IF TCof(f) = 19 /\ pre.alt # <<>> /\ GnssDelta(f) # <<>> THEN
       (IF pre.alt[1] + GnssDelta(f)[1] >= 0 THEN v = <<pre.alt[1] + GnssDelta(f)[1]>> ELSE Len(v) = 1)
  ELSE v = pre.altg
\* heading column from TC19 subtypes 3/4: ME bits 15-24 unscaled (the code does not apply 360/1024 nor the status bit)
DrfHdg19(pre, v, f, ctx) ==
  IF (DFof(f) = 17 \/ (DFof(f) = 18 /\ UpdPath(f, ctx))) /\ TCof(f) = 19 /\ STof(f) \in {3, 4} THEN v = <<Field(f, 47, 56)>>
  ELSE TRUE
\* ground movement (TC 5-8), in thousandths of a knot
Movement(m) == IF m = 1 THEN <<0>> ELSE IF m >= 2 /\ m <= 8 THEN <<125 * m>> ELSE IF m >= 9 /\ m <= 12 THEN <<250 * m>>
               ELSE IF m >= 13 /\ m <= 38 THEN <<500 * m>> ELSE IF m >= 39 /\ m <= 93 THEN <<1000 * m>>
               ELSE IF m >= 94 /\ m <= 108 THEN <<2000 * m>> ELSE IF m >= 109 /\ m <= 123 THEN <<5000 * m>>
               ELSE IF m = 124 THEN <<175000>> ELSE <<>>
DrfGm(pre, v, f, ctx) ==
  IF (DFof(f) = 17 \/ (DFof(f) = 18 /\ UpdPath(f, ctx))) /\ TCof(f) \in 5..8 THEN v = Movement(Field(f, 38, 44)) ELSE v = pre.gm
\* ground track of a surface squitter: status bit 45, 7 bits * 360/128
DrfTrkSurface(pre, v, f, ctx) ==
  IF (DFof(f) = 17 \/ (DFof(f) = 18 /\ UpdPath(f, ctx))) /\ TCof(f) \in 5..8
  THEN v = IF Bit(f, 45) = 1 THEN <<(Field(f, 46, 52) * 360) \div 128>> ELSE <<>>
  ELSE TRUE
\* metric altitude codes (M = 1): the code multiplies the 11 bits left after removing M and Q by 0.31 and truncates
DrfAltM1(pre, v, f, ctx) ==
  IF ~Free(f) /\ CarriesAlt(f) /\ AltSpecOf(f).kind = "any" /\ ~AddrOnly(f, ctx)
  THEN v = <<(31 * N11(AC13of(f))) \div 100>>
  ELSE TRUE
\* one-character source markers printed in the gutters (code points); "decoded as a squitter" = DF17, or DF18 under -U
Sq(f, ctx) == DFof(f) = 17 \/ (DFof(f) = 18 /\ UpdPath(f, ctx))
DrfAlts(pre, v, f, ctx) ==
  IF Sq(f, ctx) /\ TCof(f) \in 5..8 THEN v = 8304
  ELSE IF Sq(f, ctx) /\ TCof(f) \in 9..18 THEN v = 32
  ELSE IF Sq(f, ctx) /\ TCof(f) = 19 /\ STof(f) \in {3, 4} THEN v = 34
  ELSE IF DFof(f) = 4 /\ (UpdPath(f, ctx) \/ AltSpecOf(f).kind # "none") THEN v = 32 \/ v = pre.alts
  ELSE IF DFof(f) = 20 /\ ctx.exists THEN v = 32
  ELSE v = pre.alts
DrfTrks(pre, v, f, ctx, trkChanged) ==
  IF Sq(f, ctx) /\ TCof(f) \in 5..8 THEN v = IF UpdPath(f, ctx) THEN 32 ELSE 8304
  ELSE IF Sq(f, ctx) /\ TCof(f) = 19 /\ STof(f) = 1 THEN v = 8321
  ELSE IF Sq(f, ctx) /\ TCof(f) = 19 /\ STof(f) = 2 THEN v = 8322
  ELSE IF IsCommB(f) THEN (v = pre.trks \/ v = 8325)
  ELSE v = pre.trks
DrfHdgs(pre, v, f, ctx) ==
  IF Sq(f, ctx) /\ TCof(f) = 19 /\ STof(f) \in {3, 4} THEN v = 8323
  ELSE IF IsCommB(f) THEN (v = pre.hdgs \/ v = 8326)
  ELSE v = pre.hdgs
DrfVrs(pre, v, f, ctx) ==
  IF Sq(f, ctx) /\ TCof(f) = 19 THEN v = 32
  ELSE IF IsCommB(f) THEN (v = pre.vrs \/ v = 8326 \/ v = 8305)
  ELSE v = pre.vrs
DrfSels(pre, v, f, ctx) ==
  IF IsCommB(f) THEN (v = pre.sels \/ v = (IF MBit(f, 54) = 1 /\ MField(f, 55, 56) # 0 THEN 8320 + MField(f, 55, 56) ELSE 32))
  ELSE v = pre.sels
\* the position time stamp follows a successful decode
DrfPts(pre, post, f, ctx) == (post.lat = pre.lat /\ post.lon = pre.lon) \/ post.pts = <<post.ts>>
\* formats outside the nine: the code takes bits 9-32 as the address; DF18 on the default path changes nothing but the stamp
DrfDf18Default(pre, post, f, ctx) ==
  (DFof(f) = 18 /\ ~UpdPath(f, ctx) /\ ctx.exists) =>
     /\ post.alt = pre.alt /\ post.cs = pre.cs /\ post.cat = pre.cat /\ post.gs = pre.gs /\ post.trk = pre.trk /\ post.vr = pre.vr
     /\ post.lat = pre.lat /\ post.lon = pre.lon /\ post.ss = pre.ss /\ post.ver = pre.ver
=============================================================================
