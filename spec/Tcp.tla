--------------------------------- MODULE Tcp ---------------------------------
(***************************************************************************)
(* Life-cycle of the TCP source (C18): the decoder connects, reads lines   *)
(* until the connection ends, and connects again; a failed attempt is      *)
(* followed by a pause of 5 s.  The aircraft table belongs to the process, *)
(* not to the connection.  The peer is a script of faults followed by a    *)
(* healthy connection:                                                     *)
(*   "refuse"  the next connection attempt fails                           *)
(*   "close"   accept, send nothing, close                                 *)
(*   "frames"  accept, send complete frames, close                         *)
(*   "partial" accept, send frames and a partial last line, reset          *)
(*   "partialfin" the same, but the connection is closed, not reset        *)
(*   "junk"    accept, send junk bytes and a frame, close                  *)
(*   "healthy" accept, send frames, stay up                                *)
(* Frames are abstracted to the aircraft they belong to (the decoding is   *)
(* the business of Model.tla).                                             *)
(***************************************************************************)
EXTENDS Integers, Sequences, FiniteSets, TLC

CONSTANTS Faults,      \* the fault kinds the script may use
          MaxFaults,   \* fault budget
          Pause,       \* ms the decoder sleeps after a failed attempt (5000)
          MaxClock     \* bound on the clock (ms) for the finite instance

VARIABLES conn,    \* "down" (about to attempt), "sleeping", "up"
          wake,    \* earliest time of the next attempt while sleeping
          clock,   \* ms
          script,  \* remaining peer behaviour: sequence of fault kinds, then <<"healthy">>
          sent,    \* aircraft whose complete frames the peer has delivered on the current connection so far
          pending, \* the current connection still has something to deliver (frames / partial line / junk)
          table,   \* aircraft in the decoder's table
          learned, \* history: every aircraft whose complete frame was delivered on any connection
          attempts \* number of connection attempts so far
vars == <<conn, wake, clock, script, sent, pending, table, learned, attempts>>

Scripts == UNION {[1..n -> Faults] : n \in 0..MaxFaults}
AircraftOf(k) == k                  \* connection number k delivers a frame of aircraft k

Init == /\ conn = "down" /\ wake = 0 /\ clock = 0 /\ sent = {} /\ pending = FALSE
        /\ table = {} /\ learned = {} /\ attempts = 0
        /\ script \in {s \o <<"healthy">> : s \in Scripts}

\* a connection attempt: refused -> sleep; accepted -> up
Attempt == /\ conn = "down" /\ script # <<>>
           /\ attempts' = attempts + 1
           /\ IF Head(script) = "refuse"
              THEN /\ conn' = "sleeping" /\ wake' = clock + Pause /\ script' = Tail(script)
                   /\ UNCHANGED <<sent, pending>>
              ELSE /\ conn' = "up" /\ pending' = (Head(script) # "close") /\ sent' = {}
                   /\ UNCHANGED <<wake, script>>
           /\ UNCHANGED <<clock, table, learned>>

Wake == /\ conn = "sleeping" /\ clock >= wake
        /\ conn' = "down"
        /\ UNCHANGED <<wake, clock, script, sent, pending, table, learned, attempts>>

\* the peer delivers what this connection carries; complete frames reach the table, a partial last line
\* and junk bytes are just malformed lines
Deliver == /\ conn = "up" /\ pending
           /\ LET a == AircraftOf(attempts) IN
              /\ pending' = FALSE
              /\ sent' = {a}
              /\ table' = table \cup {a}
              /\ learned' = learned \cup {a}
           /\ UNCHANGED <<conn, wake, clock, script, attempts>>

\* the connection ends (closed or reset by the peer): the decoder goes straight back to connecting
PeerEnds == /\ conn = "up" /\ ~pending /\ Head(script) # "healthy"
            /\ conn' = "down" /\ script' = Tail(script)
            /\ UNCHANGED <<wake, clock, sent, pending, table, learned, attempts>>

\* time always advances far enough for a sleeping decoder to wake up (the bound only stops idle time)
Tick == /\ (clock < MaxClock \/ (conn = "sleeping" /\ clock < wake))
        /\ clock' = clock + 1000
        /\ UNCHANGED <<conn, wake, script, sent, pending, table, learned, attempts>>

Next == Attempt \/ Wake \/ Deliver \/ PeerEnds \/ Tick
Spec == Init /\ [][Next]_vars /\ WF_vars(Attempt) /\ WF_vars(Wake) /\ WF_vars(Deliver) /\ WF_vars(PeerEnds) /\ WF_vars(Tick)

(****************************** properties *********************************)
\* a change of connection state never changes the table
ConnKeepsTable == [][conn' # conn => table' = table]_vars
\* aircraft learned on earlier connections are still there (expiry is C12's business and not modelled here)
NoLoss == learned \subseteq table
\* the pause: an attempt never follows a refused one sooner than Pause
PauseRespected == [][(conn = "sleeping" /\ conn' = "down") => clock >= wake]_vars
\* the decoder never gives up: the healthy connection is eventually established and its frames decoded
Recovers == <>(conn = "up" /\ script = <<"healthy">> /\ ~pending)
\* attempts = faults + 1 at the end: one attempt per scripted behaviour, none skipped
AttemptsBounded == attempts <= MaxFaults + 1
=============================================================================
