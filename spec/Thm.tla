--------------------------------- MODULE Thm ---------------------------------
(***************************************************************************)
(* Spec-level theorems about the oracle, checked by TLC over whole (small) *)
(* domains: every element of the domain is an initial state and the        *)
(* theorem is an invariant, so "states" = size of the domain.  These are   *)
(* the E1 part of the single-frame properties: they show that the          *)
(* operators the trace validator judges with have the algebraic            *)
(* properties the statements rely on (all 1-/2-bit and burst errors are    *)
(* detected, address recovery inverts the overlay for all formats, the     *)
(* altitude / identity / callsign / velocity / CPR / Comm-B decoders       *)
(* invert the encoders over their domains, ...).                           *)
(***************************************************************************)
EXTENDS ModeS, Cpr, CommB, FiniteSets, TLC

CONSTANT Mode, MaxBurst, Stride     \* Stride thins the larger domains in the quick tier (1 = full)
VARIABLE x

(******************************* C04: CRC **********************************)
\* error polynomial of a 112-bit frame as nibbles: bits of `pat` (len bits, MSB first) placed from bit `start`
ErrNibs(n, start, len, pat) ==
  [i \in 1..n |->
     LET b(k) == IF k >= start /\ k < start + len THEN (pat \div Pow2(len - 1 - (k - start))) % 2 ELSE 0
     IN  8 * b(4*i - 3) + 4 * b(4*i - 2) + 2 * b(4*i - 1) + b(4*i)]
\* bursts: first and last bit set
Bursts(nbits) == {<<s, l, p>> \in (6..nbits) \X (1..MaxBurst) \X (0..(Pow2(MaxBurst) - 1)) :
                    /\ s + l - 1 <= nbits
                    /\ p < Pow2(l) /\ p % 2 = 1 /\ p >= Pow2(l - 1)}
Pairs(nbits) == {<<i, j>> \in (6..nbits) \X (6..nbits) : i <= j}
PairNibs(n, i, j) == [k \in 1..n |->
     LET b(q) == IF q = i \/ q = j THEN 1 ELSE 0 IN 8 * b(4*k - 3) + 4 * b(4*k - 2) + 2 * b(4*k - 1) + b(4*k)]

(******************************* C03: address ******************************)
Addrs == {1, 2, 8388608, 16777215, 4735190, 11184810, 5592405, 4921598} \cup {Pow2(k) : k \in 0..23}
Fmts == {0, 4, 5, 11, 16, 17, 18, 20, 21}
Seeds == 0..55
MkFmt(fm, a, sd) ==
  LET me == BitsToNibs([k \in 1..56 |-> IF k = sd + 1 \/ k = ((sd * 7) % 56) + 1 THEN 1 ELSE 0])
      c13 == Pow2(sd % 13)
      f14 == Pow2(sd % 14)
  IN  IF fm = 11 THEN MkDF11(sd % 8, a, (sd * 5) % 128)
      ELSE IF fm = 17 THEN MkDF17(sd % 8, a, me)
      ELSE IF fm = 18 THEN MkDF18(sd % 8, a, me)
      ELSE IF fm \in {0, 4, 5} THEN MkShort(fm, f14, c13, a)
      ELSE MkLong(fm, f14, c13, me, a)

(******************************* domains ***********************************)
Dom ==
  IF Mode = "crc112" THEN {<<"b", t>> : t \in Bursts(112)} \cup {<<"p", t>> : t \in Pairs(112)}
  ELSE IF Mode = "crc56" THEN {<<"b", t>> : t \in Bursts(49)} \cup {<<"p", t>> : t \in Pairs(49)}
  ELSE IF Mode = "addr" THEN Fmts \X Addrs \X Seeds
  ELSE IF Mode = "alt" THEN 0..8191
  ELSE IF Mode = "sq" THEN 0..8191
  ELSE IF Mode = "cs" THEN (0..7) \X (0..63) \X (0..3)
  ELSE IF Mode = "vel" THEN {<<e, n>> \in (-1022..1022) \X (-1022..1022) : (e % (13 * Stride) = 0 \/ Abs(e) < 3 \/ Abs(e) > 1019) /\ (n % (11 * Stride) = 0 \/ Abs(n) < 3 \/ Abs(n) > 1019)}
  ELSE IF Mode = "cpr" THEN {<<la, lo, i>> \in (-8690..8690) \X {-17999, -9000, -1, 0, 391, 12345, 17999} \X {0, 1} : la % (3 * Stride) = 0 \/ la % 100 < 2}
  ELSE IF Mode = "commb" THEN {r \in -300..300 : r % Stride = 0} \X {-511, -17, -1, 1, 17, 511} \X {1, 300, 1023, 1024, 2047}
  ELSE {}

Thm ==
  IF Mode = "crc112" THEN
       \* every burst of up to MaxBurst bits and every 1-/2-bit error inside bits 6..112 leaves a non-zero syndrome
       (IF x[1] = "b" THEN Syndrome(ErrNibs(28, x[2][1], x[2][2], x[2][3])) # 0 ELSE Syndrome(PairNibs(28, x[2][1], x[2][2])) # 0)
  ELSE IF Mode = "crc56" THEN
       \* DF11: errors confined to bits 6..49 (outside the 7 interrogator-code bits) are detected in the upper 17 bits
       (IF x[1] = "b" THEN Syndrome(ErrNibs(14, x[2][1], x[2][2], x[2][3])) \div 128 # 0 ELSE Syndrome(PairNibs(14, x[2][1], x[2][2])) \div 128 # 0)
  ELSE IF Mode = "addr" THEN
       LET f == MkFmt(x[1], x[2], x[3]) IN Address(f) = x[2] /\ DFof(f) = x[1] /\ LenAgrees(f) /\ ParityOK(f)
  ELSE IF Mode = "alt" THEN
       LET s == Alt13(x)  n == N11(x) IN
       /\ (x = 0 => s = AltNone)
       /\ (CB(x, 6) = 1 => s = AltAny)
       /\ (x # 0 /\ CB(x, 6) = 0 /\ CB(x, 8) = 1 => s = IF 25 * n >= 1000 THEN AltVal(25 * n - 1000) ELSE AltNone)
       /\ (s.kind = "val" => s.v >= 0 /\ s.v <= 126700 /\ (CB(x, 8) = 1 => s.v % 25 = 0) /\ (CB(x, 8) = 0 => s.v % 100 = 0))
       /\ (x < 4096 => Alt12(x) = Alt13((x \div 64) * 128 + (x % 64)))
       /\ (s.kind = "val" /\ CB(x, 8) = 1 => EncAlt13(s.v) = x)
  ELSE IF Mode = "sq" THEN
       LET q == Squawk(x) IN
       /\ q \div 1000 \in 0..7 /\ (q \div 100) % 10 \in 0..7 /\ (q \div 10) % 10 \in 0..7 /\ q % 10 \in 0..7
       /\ Squawk(XorI(x, 64)) = q                              \* the X bit does not matter
       /\ EncSquawk(q \div 1000, (q \div 100) % 10, (q \div 10) % 10, q % 10) = x - 64 * CB(x, 6)
  ELSE IF Mode = "cs" THEN
       \* one character code at one position among fixed others (A..H), TC 1..4
       LET base == <<1, 2, 3, 4, 5, 6, 7, 8>>
           ch == [base EXCEPT ![x[1] + 1] = x[2]]
           f == MkDF17(5, 4735190, MeIdent(x[3] + 1, 3, ch))
           exp == [k \in 1..8 |-> IF k = x[1] + 1 THEN CharOf(x[2]) ELSE <<64 + k>>]
       IN  /\ Callsign(f) = exp[1] \o exp[2] \o exp[3] \o exp[4] \o exp[5] \o exp[6] \o exp[7] \o exp[8]
           /\ TCof(f) = x[3] + 1 /\ STof(f) = 3
           /\ Len(CharOf(x[2])) = (IF x[2] \in 1..26 \/ x[2] \in 48..57 THEN 1 ELSE 0)
  ELSE IF Mode = "vel" THEN
       LET e == x[1]  n == x[2]  g == SpeedKt(e, n) IN
       /\ g * g <= e * e + n * n /\ (g + 1) * (g + 1) > e * e + n * n
       /\ (e = 0 /\ n = 0) \/ (/\ Track(e, n) \in 0..359
                               /\ (Track(-e, -n) - Track(e, n)) % 180 = 0                       \* opposite direction
                               /\ (e # 0 /\ n # 0 /\ Abs(e) # Abs(n) => Track(e, n) + Track(-e, n) = 359)   \* mirror, non-integer angles
                               /\ (e > 0 /\ n > 0 /\ e # n => Track(e, n) + Track(n, e) = 89))
  ELSE IF Mode = "cpr" THEN
       \* encode a position (units 0.01 deg -> 10^-5 deg) and a second one ~330 m away with the other parity, decode both orders
       LET la == 1000 * x[1] + 7   lo == 1000 * x[2] + 3   i == x[3]
           old == CprEncode(la, lo, 1 - i)
           new == CprEncode(la + 300, lo - 400, i)
           y0 == IF i = 0 THEN new[1] ELSE old[1]   x0 == IF i = 0 THEN new[2] ELSE old[2]
           y1 == IF i = 1 THEN new[1] ELSE old[1]   x1 == IF i = 1 THEN new[2] ELSE old[2]
           p  == CprDecode(y0, x0, y1, x1, i)
       IN  IF ~CprInScope(y0, y1) THEN TRUE
           ELSE IF CprSameZone(y0, y1)
                THEN /\ p # NoPos
                     /\ Abs(p[1] - 10 * (la + 300)) <= 50                     \* within one latitude bin (5 m)
                     /\ Abs(PMod(p[2] - 10 * (lo - 400) + 180000000, 360000000) - 180000000) * 1 <= 2800   \* one longitude bin
                     /\ p[1] >= -90000000 /\ p[1] <= 90000000 /\ p[2] >= -180000000 /\ p[2] <= 180000000
                ELSE p = NoPos
  ELSE IF Mode = "commb" THEN
       LET r == x[1]  t == x[2]  h == x[3]
           f5 == MkLong(20, 0, 0, Mb50(r, h, 219, t, 212), 4735190)
           f6 == MkLong(21, 0, 0, Mb60(h, 250, 200, t, -t), 4735190)
           f4 == MkLong(20, 0, 0, Mb40(Abs(r) + 1, h, Abs(t) + 1), 4735190)
       IN  /\ Valid50S(f5) /\ RollS50(f5) = r /\ TarS50(f5) = t /\ TrackU50(f5) = h /\ ~Valid17L(f5) /\ ~Valid40L(f5)
           /\ RollOK50(f5, FloorDiv(45 * r, 256)) /\ TarOK50(f5, FloorDiv(8 * t, 256)) /\ TrackOK50(f5, (90 * h) \div 512)
           /\ Valid60S(f6) /\ HdgU60(f6) = h /\ BaroRate60(f6) = 32 * t /\ InerRate60(f6) = -32 * t /\ ~Valid17L(f6) /\ ~Valid40L(f6)
           /\ Valid40S(f4) /\ Mcp40(f4) = 16 * (Abs(r) + 1) /\ Fms40(f4) = 16 * h /\ BaroOK40(f4, 800 + (Abs(t) + 1) \div 10) /\ ~Valid17L(f4)
  ELSE TRUE

Init == x \in Dom
Next == x' = x
Spec == Init /\ [][Next]_x
=============================================================================
