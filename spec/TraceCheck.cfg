SPECIFICATION Spec
CHECK_DEADLOCK FALSE
POSTCONDITION Consumed
