------------------------------ MODULE TraceCheck ------------------------------
(***************************************************************************)
(* Trace validation: reads a trace recorded from the real code (harness    *)
(* sqv, tools/cli.py) and steps the specification along it.  The table     *)
(* state is logged, so the spec re-synchronises to the logged post-state   *)
(* after every event and each step is judged on its own; what the log      *)
(* does not contain (receive times of earlier frames, advertised           *)
(* registers, who was heard when) the spec carries forward itself.         *)
(*                                                                         *)
(* IOEnv.TRACE = ndjson file, IOEnv.PROP = property id or "ALL".           *)
(* A failed step predicate prints <<"VIOL", prop, predicate, event, tag>>  *)
(* and checking continues.  <<"NT", prop, event>> marks events on which    *)
(* the antecedent of the selected property really held (non-vacuity).      *)
(* <<"DONE", n>> is printed when the last event has been consumed.         *)
(***************************************************************************)
EXTENDS Squitterator, Country, Render, Dlog, RefreshRule, Json, IOUtils, TLC, FiniteSets

Rec == ndJsonDeserialize(IOEnv.TRACE)
Prop == IOEnv.PROP
Sel(p) == Prop = p \/ (Prop = "ALL" /\ p # "DRIFT")

VARIABLES l, st

Has(r, k) == k \in DOMAIN r
Viol(p, name, ev, tag) == PrintT(<<"VIOL", p, name, ev.i, tag>>)
\* evaluates to TRUE always; prints when the selected property's predicate fails
Chk(p, name, ok, ev, tag) == IF Sel(p) THEN (IF ok THEN TRUE ELSE Viol(p, name, ev, tag)) ELSE TRUE
Mark(p, cond, ev) == IF Prop = p /\ cond THEN PrintT(<<"NT", p, ev.i>>) ELSE TRUE

Slots == {0, 1}
NoAux == [slots |-> << <<>>, <<>> >>, adv |-> [b40 |-> FALSE, b50 |-> FALSE, b60 |-> FALSE],
          heard |-> <<>>]
St0 == [args  |-> [s \in Slots |-> <<>>],
        tbl   |-> [s \in Slots |-> <<>>],        \* address -> logged row (a function; <<>> = empty)
        aux   |-> [s \in Slots |-> <<>>],        \* address -> [slots, adv, heard]
        off   |-> 0,                             \* simulated time that has passed (ms)
        saved |-> <<>>,                          \* id -> saved spec-side state
        last  |-> <<>>]                          \* previous run event (paired checks)

EmptyF == [x \in {} |-> 0]

(***************************** observer ************************************)
\* "lat,lon" with optional blanks; only integer degrees are interpreted (others: unknown = <<>>)
IsDigit(c) == c >= 48 /\ c <= 57
RECURSIVE ParseInt(_, _, _)
ParseInt(s, i, acc) == IF i > Len(s) THEN acc ELSE ParseInt(s, i + 1, 10 * acc + (s[i] - 48))
ParseDeg(s0) ==   \* <<>> or <<micro-degrees>>
  LET s  == SelectSeq(s0, LAMBDA c : c # 32 /\ c # 9)
      ng == Len(s) > 0 /\ s[1] = 45
      b  == IF ng THEN Tail(s) ELSE s
      dot == {i \in 1..Len(b) : b[i] = 46}
      ip == IF dot = {} THEN b ELSE SubSeq(b, 1, (CHOOSE i \in dot : \A j \in dot : i <= j) - 1)
      fp == IF dot = {} THEN <<>> ELSE SubSeq(b, (CHOOSE i \in dot : \A j \in dot : i <= j) + 1, Len(b))
      fp6 == [i \in 1..6 |-> IF i <= Len(fp) THEN fp[i] ELSE 48]
  IN  IF Len(ip) = 0 \/ Len(ip) > 3 \/ Cardinality(dot) > 1 \/ Len(fp) > 6
         \/ (\E i \in 1..Len(ip) : ~IsDigit(ip[i])) \/ (\E i \in 1..Len(fp) : ~IsDigit(fp[i]))
      THEN <<>>
      ELSE << (IF ng THEN -1 ELSE 1) * (1000000 * ParseInt(ip, 1, 0) + ParseInt(fp6, 1, 0)) >>
ParseObs(o) ==    \* o: <<>> or <<code points>>
  IF o = <<>> THEN <<>>
  ELSE LET s == o[1]
           cm == {i \in 1..Len(s) : s[i] = 44}
       IN  IF Cardinality(cm) # 1 THEN <<>>
           ELSE LET c == CHOOSE i \in cm : TRUE
                    la == ParseDeg(SubSeq(s, 1, c - 1))
                    lo == ParseDeg(SubSeq(s, c + 1, Len(s)))
                IN  IF la = <<>> \/ lo = <<>> THEN <<>> ELSE <<la[1], lo[1]>>

(***************************** helpers *************************************)
ChSet(ev) == {ev.ch[j].a : j \in 1..Len(ev.ch)}
ChOf(ev, a) == ev.ch[CHOOSE j \in 1..Len(ev.ch) : ev.ch[j].a = a]
PostTbl(tbl, ev) == [a \in ToSet(ev.k1) |-> IF a \in ChSet(ev) THEN ChOf(ev, a).post[1] ELSE tbl[a]]
Ctx(args, exists) == [U |-> args.U, R |-> args.R, exists |-> exists]

ShiftRow(r, d) == [r EXCEPT !.ts = @ - d, !.cprt = <<@[1] - d, @[2] - d>>,
                            !.pts = IF @ = <<>> THEN @ ELSE <<@[1] - d>>,
                            !.tts = IF @ = <<>> THEN @ ELSE <<@[1] - d>>,
                            !.hts = IF @ = <<>> THEN @ ELSE <<@[1] - d>>,
                            !.t50 = IF @ = <<>> THEN @ ELSE <<@[1] - d>>]

\* rows compared without wall-clock stamps
NoStamps(r) == [k \in (DOMAIN r) \ {"ts", "cprt", "pts", "tts", "hts", "t50"} |-> r[k]]
SameButStamps(r1, r2) == NoStamps(r1) = NoStamps(r2)

AuxOf(aux, a) == IF a \in DOMAIN aux THEN aux[a] ELSE NoAux

\* spec-side bookkeeping for one applied frame of aircraft a received in [tlo, thi] (virtual ms)
AuxAfter(x, f, tlo, thi) ==
  [slots |-> SlotsAfter(x.slots, f, tlo, thi),
   adv   |-> IF IsCommB(f) /\ Valid17L(f)
             THEN [b40 |-> x.adv.b40 \/ MBit(f, 9) = 1, b50 |-> x.adv.b50 \/ MBit(f, 16) = 1,
                   b60 |-> x.adv.b60 \/ MBit(f, 24) = 1]
             ELSE x.adv,
   heard |-> <<[tlo |-> tlo, thi |-> thi]>>]

\* country code of an address per the allocation table; addresses inside uncertain blocks are unconstrained
RegOK(a, reg) ==
  LET bs == {i \in 1..NBlocks : Blocks[i].lo <= a /\ a <= Blocks[i].hi}
      \* the extent of an uncertain block is uncertain too: the whole 4096-address page around it constrains nothing
      unsure == \E i \in 1..NBlocks : ~Blocks[i].sure /\ (Blocks[i].lo \div 4096) * 4096 <= a
                                         /\ a <= Max(Blocks[i].hi, (Blocks[i].lo \div 4096) * 4096 + 4095)
  IN  IF unsure THEN TRUE
      ELSE IF bs = {} THEN reg = "??" ELSE reg = Blocks[CHOOSE i \in bs : TRUE].code

(***************************** single frame ********************************)
AltCode13(f) == IF DFof(f) \in {4, 20} THEN AC13of(f) ELSE (AC12of(f) \div 64) * 128 + (AC12of(f) % 64)
AltTagOf(f) ==
  LET c == AltCode13(f)  t == AltTag(c) IN
  \* the all-zero AC12 code of a squitter also goes through the implementation's Gillham branch (Q = 0), which reads the
  \* address bits: same root cause and same tag as the listed finding
  IF t = "alt.zero" /\ DFof(f) = 17 THEN "alt.Q0.ext"
  ELSE IF t # "alt.Q0" THEN t
  ELSE IF DFof(f) \in {4, 20} THEN "alt.Q0." \o ToString(c) ELSE "alt.Q0.ext"
FrameTag(f) ==
  IF DFof(f) \in {4, 20} \/ IsAirPos(f) THEN AltTagOf(f)
  ELSE IF IsVel12(f) THEN (IF ~VelHasInfo(f) THEN "vel.field0" ELSE "vel")
  ELSE "df"
VrTag(f) == IF ~IsVel(f) THEN "vr" ELSE IF VrF(f) = 0 THEN "vr.field0" ELSE IF VrF(f) = 1 THEN "vr.field1" ELSE "vr"

\* all per-parameter predicates for one applied frame; pre/post rows, x = aux before the frame
FrameChecks(ev, f, a, pre, post, ctx, x, obs, tlo, thi) ==
  LET adv == x.adv
      sl1 == SlotsAfter(x.slots, f, tlo, thi)
      vd  == PairVerdict(sl1, f)
      path == (IF ctx.U THEN "U" ELSE "D") \o (IF ctx.exists THEN ".upd" ELSE ".first")
      t50 == IF IsCommB(f) /\ MBit(f, 36) = 1 THEN "bds50.negrate" ELSE "bds50"
      tag == IF IsVel12(f) THEN FrameTag(f) \o "." \o path ELSE FrameTag(f)
  IN
  /\ Chk("C05", "alt", AdmAlt(pre, post.alt, f, ctx), ev, tag)
  /\ Mark("C05", CarriesAlt(f) /\ ~Free(f) /\ AltSpecOf(f).kind # "any", ev)
  /\ Chk("C06", "squawk", AdmSq(pre, post.sq, f, ctx), ev, "sq")
  /\ Mark("C06", CarriesSq(f) /\ ~Free(f), ev)
  /\ Chk("C07", "callsign", AdmCs(pre, post.cs, f, ctx), ev, IF IsCommB(f) THEN "cs.bds20" ELSE "cs")
  /\ Chk("C07", "category", AdmCat(pre, post.cat, f, ctx), ev, "cat")
  /\ Mark("C07", (IsIdent(f) \/ (IsCommB(f) /\ Must20(pre, f, ctx))) /\ ~Free(f), ev)
  /\ Chk("C09", "gs", IsVel12(f) => AdmGs(pre, post.gs, f, ctx, adv), ev, tag)
  /\ Chk("C09", "track", IsVel12(f) => AdmTrk(pre, post.trk, f, ctx, adv), ev, tag)
  /\ Chk("C09", "vrate", IsVel12(f) => AdmVr(pre, post.vr, f, ctx, adv), ev, VrTag(f))
  /\ Mark("C09", IsVel12(f), ev)
  /\ Chk("C10", "callsign", IsCommB(f) => AdmCs(pre, post.cs, f, ctx), ev, "bds20")
  /\ Chk("C10", "threat", IsCommB(f) => AdmThr(pre, post.thr, f, ctx), ev, "bds30")
  /\ Chk("C10", "caps", IsCommB(f) => AdmCaps(pre, post.caps, f, ctx), ev, "bds17")
  /\ Chk("C10", "selalt", IsCommB(f) => AdmSel(pre, post.sel, f, ctx, adv), ev, "bds40")
  /\ Chk("C10", "baro", IsCommB(f) => AdmBaro(pre, post.baro, f, ctx, adv), ev, "bds40")
  /\ Chk("C10", "roll", IsCommB(f) => AdmRoll(pre, post.roll, f, ctx, adv), ev, t50)
  /\ Chk("C10", "track", IsCommB(f) => AdmTrk(pre, post.trk, f, ctx, adv), ev, t50)
  /\ Chk("C10", "tar", IsCommB(f) => AdmTar(pre, post.tar, f, ctx, adv), ev, t50)
  /\ Chk("C10", "gs", IsCommB(f) => AdmGs(pre, post.gs, f, ctx, adv), ev, t50)
  /\ Chk("C10", "tas", IsCommB(f) => AdmTas(pre, post.tas, f, ctx, adv), ev, t50)
  /\ Chk("C10", "heading", IsCommB(f) => AdmHdg(pre, post.hdg, f, ctx, adv), ev, "bds60")
  /\ Chk("C10", "ias", IsCommB(f) => AdmIas(pre, post.ias, f, ctx, adv), ev, "bds60")
  /\ Chk("C10", "mach", IsCommB(f) => AdmMach(pre, post.mach, f, ctx, adv), ev, "bds60")
  /\ Chk("C10", "vrate", IsCommB(f) => AdmVr(pre, post.vr, f, ctx, adv), ev, "bds60")
  \* ... and the advertised registers change with a BDS 1,7 report only (not with a DF11 that reports another CA value)
  /\ Chk("C10", "caps.source", IsCommB(f) \/ AdmCaps(pre, post.caps, f, ctx), ev, "caps")
  /\ Chk("C10", "one.register", IsCommB(f) => OneRegister(pre, post), ev, "two.registers")
  /\ Chk("C11", "one.register", IsCommB(f) => OneRegister(pre, post), ev, "two.registers")
  \* the gate rests on the recorded transponder capability: it changes with DF11 / DF17 only
  /\ Chk("C10", "capability.source", AdmCa(pre, post.ca, f, ctx), ev, "ca")
  /\ Mark("C10", IsCommB(f) /\ (Must40(pre, f, ctx) \/ Must50(pre, f, ctx) \/ Must60(pre, f, ctx)
                                \/ Must17(pre, f, ctx) \/ Must20(pre, f, ctx)
                                \/ (~Gate(pre, ctx) /\ (Valid40S(f) \/ Valid50S(f) \/ Valid60S(f)))), ev)
  /\ Chk("C08", "position", AdmPos(pre, post.lat, post.lon, f, vd), ev, "pos." \o vd.k \o "." \o path)
  /\ Chk("C08", "range", post.lat >= -90000000 /\ post.lat <= 90000000 /\ post.lon >= -180000000 /\ post.lon <= 180000000, ev, "pos.range")
  /\ Chk("C08", "distance", AdmDist(pre, post.dist, post.lat, post.lon, f, vd, obs), ev, "dist." \o vd.k)
  /\ Mark("C08", IsAirPos(f) /\ vd.k \in {"decode", "keep"} /\ x.slots[2 - CprI(f)] # <<>>, ev)
  \* C11: every parameter, every step (cross-talk, carriers, non-carriers)
  /\ Chk("C11", "alt", AdmAlt(pre, post.alt, f, ctx), ev, tag)
  /\ Chk("C11", "squawk", AdmSq(pre, post.sq, f, ctx), ev, "sq")
  /\ Chk("C11", "callsign", AdmCs(pre, post.cs, f, ctx), ev, "cs")
  /\ Chk("C11", "category", AdmCat(pre, post.cat, f, ctx), ev, "cat")
  /\ Chk("C11", "gs", AdmGs(pre, post.gs, f, ctx, adv), ev, tag)
  /\ Chk("C11", "track", AdmTrk(pre, post.trk, f, ctx, adv), ev, tag)
  /\ Chk("C11", "vrate", AdmVr(pre, post.vr, f, ctx, adv), ev, VrTag(f))
  /\ Chk("C11", "survstatus", AdmSs(pre, post.ss, f, ctx), ev, "ss")
  /\ Chk("C11", "version", AdmVer(pre, post.ver, f, ctx), ev, "ver")
  /\ Chk("C11", "capability", AdmCa(pre, post.ca, f, ctx), ev, "ca")
  /\ Chk("C11", "position", AdmPos(pre, post.lat, post.lon, f, vd), ev, "pos." \o vd.k \o "." \o path)
  /\ Chk("C11", "commb", IsCommB(f) \/ (/\ post.sel = pre.sel /\ post.baro = pre.baro /\ post.roll = pre.roll
                                        /\ post.tar = pre.tar /\ post.tas = pre.tas /\ post.ias = pre.ias
                                        /\ post.mach = pre.mach /\ post.thr = pre.thr
                                        /\ AdmCaps(pre, post.caps, f, ctx) /\ AdmHdg(pre, post.hdg, f, ctx, adv))
                          \/ Free(f), ev, "commb.crosstalk")
  /\ Mark("C11", ~Free(f) /\ ctx.exists, ev)
  \* DRIFT: implementation-shaped detail (reported as notes only)
  /\ Chk("DRIFT", "last_df", AddrOnly(f, ctx) \/ DrfLdf(pre, post.ldf, f, ctx), ev, path)
  /\ Chk("DRIFT", "last_tc", AddrOnly(f, ctx) \/ DrfLtc(pre, post.ltc, f, ctx), ev, path)
  /\ Chk("DRIFT", "alt_gnss", AddrOnly(f, ctx) \/ DrfAltg(pre, post.altg, f, ctx), ev, path)
  /\ Chk("DRIFT", "heading19", DrfHdg19(pre, post.hdg, f, ctx), ev, path)
  /\ Chk("DRIFT", "ground_movement", AddrOnly(f, ctx) \/ DrfGm(pre, post.gm, f, ctx), ev, path)
  /\ Chk("DRIFT", "surface_track", DrfTrkSurface(pre, post.trk, f, ctx), ev, path)
  /\ Chk("DRIFT", "alt_metric", DrfAltM1(pre, post.alt, f, ctx), ev, path)
  /\ Chk("DRIFT", "marker_alt", AddrOnly(f, ctx) \/ Free(f) \/ DrfAlts(pre, post.alts, f, ctx), ev, path)
  /\ Chk("DRIFT", "marker_trk", AddrOnly(f, ctx) \/ DrfTrks(pre, post.trks, f, ctx, post.trk # pre.trk), ev, path)
  /\ Chk("DRIFT", "marker_hdg", AddrOnly(f, ctx) \/ DrfHdgs(pre, post.hdgs, f, ctx), ev, path)
  /\ Chk("DRIFT", "marker_vr", AddrOnly(f, ctx) \/ DrfVrs(pre, post.vrs, f, ctx), ev, path)
  /\ Chk("DRIFT", "marker_sel", AddrOnly(f, ctx) \/ DrfSels(pre, post.sels, f, ctx), ev, path)
  /\ Chk("DRIFT", "position_stamp", DrfPts(pre, post, f, ctx), ev, path)
  /\ Chk("DRIFT", "df18_default", DrfDf18Default(pre, post, f, ctx), ev, path)
  \* C12: the age restarts with every accepted frame
  /\ Chk("C12", "stamp", post.ts + st.off >= tlo /\ post.ts + st.off <= thi, ev, "ts." \o path)
  /\ Mark("C12", ctx.exists, ev)

\* C02/C03 consistency of the public functions with the oracle, when the event carries direct calls
DirectChecks(ev, li, d) ==       \* status codes: 0 None, 1 Some, 2 panicked, 3 not called
  IF d.gms = 3 THEN TRUE                          \* line not valid UTF-8: nothing was called
  ELSE
  /\ Chk("C01", "get_message.panic", d.gms # 2 /\ d.gis # 2, ev, "direct")
  /\ Chk("C02", "get_message", d.gms = 2 \/ ((d.gms = 1) <=> li.isf), ev,
         IF li.isf THEN "gm.reject" ELSE IF Len(li.f) \in {14, 28} /\ ~LenAgrees(li.f) THEN "gm.lendf" ELSE "gm.parity")
  /\ Chk("C02", "get_message.digits", d.gms # 1 \/ d.gm = li.f, ev, "gm.digits")
  /\ Chk("C03", "get_icao", (li.isf /\ li.df \in NineDF /\ d.gis \in {0, 1})
                              => (IF li.a = 0 THEN d.gis = 0 ELSE d.gis = 1 /\ d.gi = li.a), ev, "gi")

OneLine(ev, args, tbl, aux, obs) ==
  LET li     == LineInfo(ev.lines[1])
      f      == li.f
      a      == li.a
      app    == Applied(li, args.f) /\ li.df \in NineDF    \* other formats: content and attribution unconstrained
      exists == a \in DOMAIN tbl
      pre    == IF exists THEN tbl[a] ELSE BlankRow
      k0     == ToSet(ev.k0)
      k1     == ToSet(ev.k1)
      pt     == PostTbl(tbl, ev)
      squit  == Len(f) \in {14, 28} /\ LenAgrees(f) /\ li.df \in {11, 17, 18}
      tlo    == ev.tb + st.off
      thi    == ev.ta + st.off
  IN
  /\ Chk("C02", "reject.untouched", li.isf \/ ev.ch = <<>>, ev,
         IF Len(f) \in {14, 28} /\ ~LenAgrees(f) THEN "lendf" ELSE IF Len(f) \in {14, 28} THEN "parity" ELSE "length")
  /\ Chk("C02", "frame.applied", (app /\ li.df \in NineDF) => a \in k1, ev, "accept")
  \* whatever property is being checked: a frame that had to be applied and left no row behind decides it negatively (nothing of
  \* what the frame carries can be in the table)
  /\ (IF Prop \in {"ALL", "DRIFT", "C01", "C02"} THEN TRUE ELSE Chk(Prop, "frame.applied", (app /\ ev.ok) => a \in k1, ev, "dropped"))
  /\ Mark("C02", TRUE, ev)
  /\ Chk("C03", "isolation", app => (ChSet(ev) \subseteq {a} /\ k1 \ k0 \subseteq {a}), ev, "other.row")
  /\ Chk("C03", "zero.dropped", (li.isf /\ a = 0) => ev.ch = <<>>, ev, "zero")
  /\ Chk("C03", "created", (app /\ li.df \in NineDF) => a \in k1, ev, "create")
  /\ Chk("C03", "row.key", \A b \in k1 : pt[b].a = b, ev, "key")
  /\ Chk("C03", "no.sweep", k0 \subseteq k1 \/ ~ev.ok, ev, "lost.row")
  /\ Mark("C03", app /\ li.df \in NineDF, ev)
  /\ Chk("C04", "parity", (squit /\ ~ParityOK(f)) => ev.ch = <<>>, ev,
         IF li.df = 11 THEN "df11" ELSE "df17")
  /\ Mark("C04", squit /\ ~ParityOK(f), ev)
  /\ Chk("C16", "filter", (li.isf /\ ~PassesFilter(li.df, args.f)) => ev.ch = <<>>, ev, "filter")
  \* ... and nothing but -f filters: a frame of a listed format (or any, without -f) is applied whatever the other options say
  /\ Chk("C16", "filter.passes", (app /\ ev.ok) => a \in k1, ev, "listed.dropped")
  /\ Mark("C16", li.isf /\ a # 0 /\ args.f # <<>>, ev)
  /\ Chk("C12", "present", app => a \in k1, ev, "present")
  \* C17 on the reader path: the row of an applied frame shows the country of its address (certain blocks only)
  /\ Chk("C17", "row.country", (app /\ a \in k1) => RegOK(a, pt[a].reg), ev, "reader.path")
  /\ Mark("C17", app /\ a \in k1, ev)
  \* C11: re-feeding the frame just applied to an existing row changes nothing (stamps aside)
  /\ Chk("C11", "refeed",
         (app /\ ev.ok /\ st.last # <<>> /\ st.last[1].slot = ev.slot /\ st.last[1].lines = ev.lines
              /\ st.last[1].ok /\ a \in ToSet(st.last[1].k0) /\ ~Free(f))
           => \A b \in ChSet(ev) : ChOf(ev, b).pre # <<>> /\ ChOf(ev, b).post # <<>>
                                   /\ SameButStamps(ChOf(ev, b).pre[1], ChOf(ev, b).post[1]), ev, "refeed")
  /\ (IF Has(ev, "direct") THEN DirectChecks(ev, li, ev.direct[1]) ELSE TRUE)
  /\ (IF app /\ a \in k1 /\ ev.ok
      THEN FrameChecks(ev, f, a, pre, pt[a], Ctx(args, exists), AuxOf(aux, a), obs, tlo, thi)
      ELSE TRUE)

(***************************** multi-line runs *****************************)
\* indices of applied lines of a run, in order
AppliedIdx(lis, filt) == SelectSeq([k \in 1..Len(lis) |-> k], LAMBDA k : Applied(lis[k], filt) /\ lis[k].df \in NineDF)
\* a frame of another format was taken: which row it touches is not constrained by any property
Wild(lis, filt) == \E k \in 1..Len(lis) : Applied(lis[k], filt) /\ lis[k].df \notin NineDF

MultiLine(ev, args, tbl, aux) ==
  LET n    == Len(ev.lines)
      lis  == [k \in 1..n |-> LineInfo(ev.lines[k])]
      ai   == AppliedIdx(lis, args.f)
      na   == Len(ai)
      addrs == {lis[ai[j]].a : j \in 1..na}
      k0   == ToSet(ev.k0)
      k1   == ToSet(ev.k1)
      pt   == PostTbl(tbl, ev)
      D    == IF args.d > 2000000 THEN 2000000000 ELSE IF args.d < -2000000 THEN -2000000000 ELSE args.d * 1000   \* 32-bit integers
      now0 == ev.tb + st.off
      now1 == ev.ta + st.off
      \* position (1-based, among applied frames) of the first / last frame of aircraft b, 0 if none
      firstOf(b) == IF b \in addrs THEN CHOOSE j \in 1..na : lis[ai[j]].a = b /\ \A i \in 1..(j - 1) : lis[ai[i]].a # b ELSE 0
      \* definitely stale when the run started (and so at every sweep of the run, absent its own frames)
      staleAtStart(b) == LET h == AuxOf(aux, b).heard IN h # <<>> /\ now0 - h[1].thi >= D
      freshAtEnd(b) == LET h == AuxOf(aux, b).heard IN h # <<>> /\ now1 - h[1].tlo < D
  IN
  \* C02: a run none of whose lines is a frame leaves the table untouched - no row changed, none removed (such lines do not
  \* count towards the sweep either)
  /\ Chk("C02", "reject.untouched.run", (\A k \in 1..n : ~lis[k].isf) => (ev.ch = <<>> /\ k1 = k0), ev, "run")
  /\ Mark("C02", \A k \in 1..n : ~lis[k].isf, ev)
  /\ Chk("C03", "isolation.run", ChSet(ev) \subseteq (addrs \cup k0) /\ k1 \subseteq (k0 \cup addrs), ev, "other.row")
  /\ Chk("C03", "row.key", \A b \in k1 : pt[b].a = b, ev, "key")
  \* frames of other aircraft remove nobody who is not overdue (however many rows there are)
  /\ Chk("C03", "no.loss.run", \A b \in k0 : freshAtEnd(b) => b \in k1, ev, "lost.row")
  \* heard less than delete_after seconds ago (before the run, or in it): must be in the table
  /\ Chk("C12", "present", \A b \in (k0 \cup addrs) :
                              (b \in addrs /\ D > now1 - now0) \/ (b \in k0 /\ freshAtEnd(b)) => b \in k1, ev, "present")
  \* silent for delete_after or more and 12 further accepted frames processed: must be gone
  /\ Chk("C12", "removed", \A b \in k0 : (staleAtStart(b) /\ b \notin addrs /\ na >= 12) => b \notin k1, ev, "stale.kept")
  \* stale, swept, then heard again later in the run: a fresh row that remembers nothing
  /\ Chk("C12", "fresh", \A b \in k0 \cap k1 : (staleAtStart(b) /\ firstOf(b) > 12) =>
                            LET carried == {lis[ai[j]].df : j \in {i \in 1..na : lis[ai[i]].a = b}} IN
                            /\ (pt[b].sq # <<>> => carried \cap {5, 21} # {})
                            /\ (pt[b].alt # <<>> => carried \cap {4, 20, 17} # {})
                            /\ (pt[b].cs # <<>> => carried \cap {17, 20, 21} # {}), ev, "not.fresh")
  \* last-contact stamp: inside the run for aircraft heard in it, untouched otherwise
  /\ Chk("C12", "stamp", \A b \in k1 : IF b \in addrs THEN pt[b].ts + st.off >= now0 /\ pt[b].ts + st.off <= now1
                                        ELSE (b \in k0 => pt[b].ts = tbl[b].ts), ev, "ts")
  /\ Mark("C12", \E b \in k0 : staleAtStart(b) \/ freshAtEnd(b), ev)
  /\ Chk("C16", "filter.run", \A b \in ChSet(ev) : b \in addrs \/ b \in k0, ev, "filter")
  /\ Chk("C16", "filtered.untouched", (na = 0 /\ ev.ok) => ev.ch = <<>>, ev, "nothing.applied")
  /\ Chk("C13", "rejected.untouched", (na = 0 /\ ev.ok) => ev.ch = <<>>, ev, "nothing.applied")
  /\ Chk("C04", "refused.run", (na = 0 /\ ev.ok) => ev.ch = <<>>, ev, "nothing.applied")
  /\ Mark("C04", na = 0 /\ k0 # {}, ev)
  /\ Mark("C16", na = 0 /\ args.f # <<>> /\ k0 # {}, ev)

(***************************** paired runs *********************************)
\* C13 / C19: the same run executed in slot 0 and then in slot 1; compared at the slot-1 event.
\* tag = [pair |-> "c13" | "c19", ...] on both events.
TablesEqual(t0, t1, proj(_)) ==
  DOMAIN t0 = DOMAIN t1 /\ \A a \in DOMAIN t0 : proj(t0[a]) = proj(t1[a])
NineParams(r) == [cs |-> r.cs, alt |-> r.alt, sq |-> r.sq, lat |-> r.lat, lon |-> r.lon, gs |-> r.gs,
                  trk |-> r.trk, vr |-> r.vr, cat |-> r.cat, ss |-> r.ss]
NoDist(r) == [k \in (DOMAIN NoStamps(r)) \ {"dist"} |-> r[k]]

\* accepted lines of a stream, as digit frames
AcceptedFrames(lines) ==
  LET lis == [k \in 1..Len(lines) |-> LineInfo(lines[k])]
      idx == SelectSeq([k \in 1..Len(lines) |-> k], LAMBDA k : lis[k].isf)
  IN  [j \in 1..Len(idx) |-> lis[idx[j]].f]

PairChecks(ev, t1) ==
  IF ~(Has(ev, "tag") /\ Has(ev.tag, "pair") /\ ev.slot = 1 /\ st.last # <<>>) THEN TRUE
  ELSE LET e0 == st.last[1]
           t0 == st.last[2]
           kind == ev.tag.pair
       IN
       /\ Chk("C13", "same.table", kind = "c13" =>
               (AcceptedFrames(e0.lines) = AcceptedFrames(ev.lines) => TablesEqual(t0, t1, NoStamps)), ev, "junk")
       /\ Chk("C13", "completed", kind = "c13" => e0.ok /\ ev.ok, ev, "junk.abort")
       /\ Mark("C13", kind = "c13" /\ Len(e0.lines) # Len(ev.lines) /\ AcceptedFrames(e0.lines) = AcceptedFrames(ev.lines), ev)
       \* segmentation invariance: the same lines fed one per reader run (slot 0, accumulated in st.tbl[0]) and as a
       \* single run (slot 1) give the same table - state hidden inside the reader thread would break this
       /\ Chk("C11", "segmentation", kind = "seg" => TablesEqual(st.tbl[0], t1, NoStamps), ev, "seg")
       /\ Chk("C03", "segmentation", kind = "seg3" => TablesEqual(st.tbl[0], t1, NoStamps), ev, "seg")
       \* C02: what a line does depends on its digits only - not on the line before it (repeated frames, decorated copies)
       \* the same under any other property (tag.prop): value sequences of its carrying formats that return to an earlier value
       /\ (IF kind = "segp" THEN Chk(ev.tag.prop, "segmentation", TablesEqual(st.tbl[0], t1, NoStamps), ev, "seg") /\ Mark(ev.tag.prop, TRUE, ev)
           ELSE TRUE)
       /\ Chk("C02", "segmentation", kind = "seg2" => TablesEqual(st.tbl[0], t1, NoStamps), ev, "seg")
       /\ Mark("C02", kind = "seg2", ev)
       /\ Mark("C03", kind = "seg3", ev)
       \* C09: the same velocity values under every option set, also for "no information" frames
       /\ Chk("C09", "option.neutral", kind = "c09u" => TablesEqual(t0, t1, LAMBDA r : <<r.gs, r.trk, r.vr>>), ev, "U")
       /\ Mark("C09", kind = "c09u" /\ ev.ch # <<>>, ev)
       \* C04: a corrupted copy right after the original, inside one reader run, leaves no trace: [F, F^e, G] = [F, G]
       /\ Chk("C04", "corrupted.copy", kind = "c04s" => TablesEqual(t0, t1, NoStamps), ev, "copy")
       /\ Mark("C04", kind = "c04s", ev)
       /\ Mark("C11", kind = "seg", ev)
       /\ Chk("C19", "presentation", kind = "c19" => TablesEqual(t0, t1, NoStamps), ev, ev.tag.opt)
       /\ Chk("C19", "observer", kind = "c19o" => TablesEqual(t0, t1, NoDist), ev, "O")
       /\ Chk("C19", "update.method", kind = "c19u" => TablesEqual(t0, t1, NineParams), ev, "U")
       /\ Chk("C19", "update.method.alt", kind = "c19ua" => TablesEqual(t0, t1, LAMBDA r : r.alt), ev, "U.alt")
       /\ Mark("C19", kind \in {"c19", "c19o", "c19u", "c19ua"} /\ ev.ch # <<>>, ev)


(***************************** reduced sweeps ******************************)
\* C03: get_icao(frame(v)) XOR v over all v (step k) in run-length form.  For AP formats the XOR is the
\* CRC of the data bits (the syndrome of the base frame with a zero AP field) except at the one v that
\* yields address 0 (dropped, logged -1); for AA formats it is 0 except at v = 0.
ZeroField(f, first) == [i \in 1..Len(f) |-> IF i >= first /\ i < first + 6 THEN 0 ELSE f[i]]
IcaoSweepStep(ev) ==
  LET f    == ev.nib
      ap   == ev.field = "ap"
      s    == IF ap THEN Syndrome(ZeroField(f, Len(f) - 5)) ELSE 0
      zat  == s                                   \* the v giving address 0
      k    == ev.step
      runs == ev.runs
      n    == Len(runs)
      last == ((16777215) \div k) * k
      ok   == /\ n = ev.nruns /\ n >= 1 /\ n <= 3
              /\ runs[1][1] = 0 /\ runs[n][2] = last
              /\ \A j \in 1..(n - 1) : runs[j + 1][1] = runs[j][2] + k
              /\ \A j \in 1..n : IF runs[j][3] = -1 THEN runs[j][1] = zat /\ runs[j][2] = zat
                                  ELSE runs[j][3] = s /\ ~(runs[j][1] <= zat /\ zat <= runs[j][2] /\ zat % k = 0)
  IN  /\ Chk("C03", "address.sweep", ok, ev, ev.field)
      /\ Mark("C03", LenAgrees(f) /\ DFof(f) \in NineDF, ev)

\* C04: accepted corrupted variants of a valid squitter (burst patterns); every accepted one must pass parity
FlipBits(f, start, len, pat) ==
  [i \in 1..Len(f) |->
     LET m == 8 * ((IF 4*i - 3 >= start /\ 4*i - 3 < start + len THEN (pat \div Pow2(len - 1 - (4*i - 3 - start))) % 2 ELSE 0))
            + 4 * ((IF 4*i - 2 >= start /\ 4*i - 2 < start + len THEN (pat \div Pow2(len - 1 - (4*i - 2 - start))) % 2 ELSE 0))
            + 2 * ((IF 4*i - 1 >= start /\ 4*i - 1 < start + len THEN (pat \div Pow2(len - 1 - (4*i - 1 - start))) % 2 ELSE 0))
            +     ((IF 4*i     >= start /\ 4*i     < start + len THEN (pat \div Pow2(len - 1 - (4*i     - start))) % 2 ELSE 0))
     IN XorI(f[i], m)]
BurstStep(ev) ==
  LET f == ev.nib
      base == LenAgrees(f) /\ DFof(f) \in {11, 17, 18} /\ ParityOK(f)
      listed == Len(ev.acc)
  IN  /\ Chk("C04", "burst.accepted", base => \A j \in 1..listed :
                 ParityOK(FlipBits(f, ev.acc[j].start, ev.acc[j].len, ev.acc[j].pat)), ev,
             IF DFof(f) = 11 THEN "df11" ELSE "df17")
      /\ Chk("C04", "burst.count", base => (ev.accepted = listed \/ listed >= 200), ev, "unlisted")
      /\ Chk("C01", "burst.panic", ev.panics = 0, ev, "get_message")
      /\ Mark("C04", base /\ ev.tried > 0, ev)


(***************************** CLI runs ************************************)
\* ev: [opts, args: [f, d], lines, code, timeout, nsnaps, last: <<>> | <<[header, sep, rows, counts]>>, profile]
RECURSIVE HexNum(_, _, _)
HexNum(s, i, acc) == IF i > Len(s) THEN acc ELSE HexNum(s, i + 1, 16 * acc + HexVal(s[i]))
RowAddr(row) == IF Len(row) >= 6 /\ \A j \in 1..6 : IsHex(row[j]) THEN HexNum(SubSeq(row, 1, 6), 1, 0) ELSE -1
\* "DF4:3 DF17:12 " -> << <<4, 3>>, <<17, 12>> >> ; malformed -> << <<-1, -1>> >>
RECURSIVE ReadInt(_, _, _)
ReadInt(s, i, acc) == IF i <= Len(s) /\ IsDigit(s[i]) THEN ReadInt(s, i + 1, 10 * acc + (s[i] - 48)) ELSE <<acc, i>>
RECURSIVE ParseCountsR(_, _, _)
ParseCountsR(s, i, acc) ==
  IF i > Len(s) THEN acc
  ELSE IF s[i] = 32 THEN ParseCountsR(s, i + 1, acc)
  ELSE IF i + 2 <= Len(s) /\ s[i] = 68 /\ s[i + 1] = 70 /\ IsDigit(s[i + 2]) THEN
       LET d == ReadInt(s, i + 2, 0) IN
       IF d[2] + 1 <= Len(s) /\ s[d[2]] = 58 /\ IsDigit(s[d[2] + 1]) THEN
            LET c == ReadInt(s, d[2] + 1, 0) IN ParseCountsR(s, c[2], Append(acc, <<d[1], c[1]>>))
       ELSE << <<-1, -1>> >>
  ELSE << <<-1, -1>> >>
ParseCounts(s) == ParseCountsR(s, 1, <<>>)

\* expected counter line: applied frames per DF, ascending DF
ExpectedCounts(dfs) ==   \* dfs: sequence of DF numbers of the applied frames
  LET S == ToSet(dfs)
      RECURSIVE Asc(_, _)
      Asc(T, acc) == IF T = {} THEN acc
                     ELSE LET m == CHOOSE x \in T : \A y \in T : x <= y
                          IN  Asc(T \ {m}, Append(acc, <<m, Cardinality({j \in 1..Len(dfs) : dfs[j] = m})>>))
  IN  Asc(S, <<>>)

CliStep(ev) ==
  LET n    == Len(ev.lines)
      lis  == [k \in 1..n |-> LineInfo(ev.lines[k])]
      ai   == AppliedIdx(lis, ev.args.f)
      addrs == {lis[ai[j]].a : j \in 1..Len(ai)}
      shown == IF ev.last = <<>> THEN {} ELSE {RowAddr(ev.last[1].rows[j]) : j \in 1..Len(ev.last[1].rows)}
      observable == ev.quiet = FALSE /\ ev.args.d >= 60 /\ ev.args.u < 0
      wild == Wild(lis, ev.args.f)
      \* counting: frames of other formats count when their address is non-zero under both readings (AA position and
      \* AP overlay); a frame for which the two readings disagree about zero makes the counter line unconstrained
      cIdx == SelectSeq([k \in 1..n |-> k], LAMBDA k : lis[k].isf /\ PassesFilter(lis[k].df, ev.args.f)
                          /\ (IF lis[k].df \in NineDF THEN lis[k].a # 0 ELSE lis[k].a # 0 /\ Field(lis[k].f, 9, 32) # 0))
      ambiguous == \E k \in 1..n : lis[k].isf /\ lis[k].df \notin NineDF /\ ((lis[k].a = 0) # (Field(lis[k].f, 9, 32) = 0))
      dfs  == [j \in 1..Len(cIdx) |-> lis[cIdx[j]].df]
      cnt  == IF ev.last = <<>> \/ ev.last[1].counts = <<>> THEN <<>> ELSE ParseCounts(ev.last[1].counts[1])
  IN  /\ Chk("C01", "cli.exit", ev.code = 0 /\ ~ev.timeout, ev, ev.profile)
      /\ Chk("C01", "cli.processed", (observable /\ ev.code = 0 /\ ~wild) => addrs \subseteq shown, ev, ev.profile)
      /\ Mark("C01", TRUE, ev)
      \* C16: only frames of the listed formats are applied; the counter line is exact
      /\ Chk("C16", "filter.table", (observable /\ ev.code = 0 /\ ~wild) => shown = addrs, ev, "table")
      /\ Chk("C16", "counters", (observable /\ ev.code = 0 /\ ~ambiguous /\ ev.args.c /\ Len(cIdx) > 0) => cnt = ExpectedCounts(dfs), ev,
             IF cnt # <<>> /\ cnt[1][1] # -1 /\ Len(cnt) = Len(ExpectedCounts(dfs))
                /\ \A j \in 1..Len(cnt) : cnt[j][1] = ExpectedCounts(dfs)[j][1] /\ cnt[j][2] = ExpectedCounts(dfs)[j][2] + 1
             THEN "plus.one" ELSE "count")
      /\ Chk("C16", "no.counters", (observable /\ ev.code = 0 /\ ~ev.args.c) => cnt = <<>>, ev, "no -c")
      /\ Mark("C16", observable /\ ~wild /\ Len(ai) > 0, ev)
      \* DRIFT: with a negative update interval the table is refreshed once per applied frame (wild frames included)
      /\ Chk("DRIFT", "refresh.per.frame", (observable /\ ev.code = 0 /\ ~ambiguous) => ev.nsnaps = Len(cIdx), ev, ev.profile)


(***************************** CLI stream (text level) ********************)
\* The outermost interface, without the harness: the real binary run with --update=-1 prints one refresh per frame that
\* reaches the decoder.  The k-th refresh, parsed through its own header, is the post-state of the k-th such frame and the
\* (k-1)-th its pre-state; the same per-parameter predicates as everywhere else are evaluated on the PRINTED values.
\* ev: [lines, args (f, U, R), snaps : sequence of [header, sep, rows], code]
ColIdx(header, cols, name) == LET ix == {k \in 1..Len(cols) : ColName(header, cols[k]) = name} IN IF ix = {} THEN 0 ELSE CHOOSE k \in ix : TRUE
CellBy(header, cols, line, name) == LET k == ColIdx(header, cols, name) IN IF k = 0 THEN <<>> ELSE Cell(line, cols[k])
ParseOptInt(t) ==
  LET u == Trim(t) IN
  IF u = <<>> THEN <<>>
  ELSE LET neg == u[1] = 45
           d   == IF neg THEN Tail(u) ELSE u
       IN  IF d # <<>> /\ \A i \in 1..Len(d) : IsDigit(d[i]) THEN << (IF neg THEN -1 ELSE 1) * ParseInt(d, 1, 0) >> ELSE << -99999999 >>
\* the printed row as an abstract row: blank row with the printed parameters filled in
TextRow(header, cols, line) ==
  LET cs == Trim(CellBy(header, cols, line, N_CALLSIGN)) IN
  [BlankRow EXCEPT !.alt = ParseOptInt(CellBy(header, cols, line, N_ALTB)),
                   !.sq  = ParseOptInt(CellBy(header, cols, line, N_SQWK)),
                   !.cs  = IF cs = <<>> THEN <<>> ELSE <<cs>>,
                   !.gs  = ParseOptInt(CellBy(header, cols, line, N_GSP)),
                   !.trk = ParseOptInt(CellBy(header, cols, line, N_TRK)),
                   !.vr  = ParseOptInt(CellBy(header, cols, line, N_VRATE))]
SnapRow(snap, a) ==     \* <<>> or <<printed line of aircraft a>>
  LET ix == {j \in 1..Len(snap.rows) : RowAddr(snap.rows[j]) = a} IN IF ix = {} THEN <<>> ELSE <<snap.rows[CHOOSE j \in ix : TRUE]>>
SnapAddrs(snap) == {RowAddr(snap.rows[j]) : j \in 1..Len(snap.rows)}
DropAges(t) == IF Len(t) >= 6 THEN SubSeq(t, 1, Len(t) - 6) ELSE t          \* "PTH LC" at the end of a row are ages

CliStreamStep(ev) ==
  LET n    == Len(ev.lines)
      lis  == [k \in 1..n |-> LineInfo(ev.lines[k])]
      idx  == SelectSeq([k \in 1..n |-> k], LAMBDA k : lis[k].isf /\ PassesFilter(lis[k].df, ev.args.f) /\ lis[k].a # 0)
      nine == \A k \in 1..n : lis[k].isf => lis[k].df \in NineDF
      m    == Len(idx)
      usable == ev.code = 0 /\ nine /\ Len(ev.snaps) = m
      Empty == [header |-> <<>>, sep |-> <<>>, rows |-> <<>>, counts |-> <<>>]
      \* position slots of aircraft a after the first j frames that reached the decoder; the whole run takes far less than the
      \* 10 s pairing window (checked: ev.wall_ms), so all receive times are taken as equal
      RECURSIVE SlotsUpTo(_, _)
      SlotsUpTo(j, a) == IF j = 0 THEN NoAux.slots
                         ELSE IF lis[idx[j]].a = a THEN SlotsAfter(SlotsUpTo(j - 1, a), lis[idx[j]].f, 0, 0) ELSE SlotsUpTo(j - 1, a)
      StepOK(k) ==
        LET f    == lis[idx[k]].f
            a    == lis[idx[k]].a
            s0   == IF k = 1 THEN Empty ELSE ev.snaps[k - 1]
            s1   == ev.snaps[k]
            cols == Cols(s1.sep)
            r0   == SnapRow(s0, a)
            r1   == SnapRow(s1, a)
            ctx  == [U |-> ev.args.U, R |-> ev.args.R, exists |-> r0 # <<>>]
            pre  == IF r0 = <<>> THEN BlankRow ELSE TextRow(s0.header, Cols(s0.sep), r0[1])
            post == IF r1 = <<>> THEN BlankRow ELSE TextRow(s1.header, cols, r1[1])
            \* a value wider than its column shifts the rest of the line (C14 allows that): such a line is not parsed
            fit  == (r0 = <<>> \/ Len(r0[1]) = Len(s0.header)) /\ (r1 = <<>> \/ Len(r1[1]) = Len(s1.header))
            tg   == "frame." \o ToString(k)
            vd   == PairVerdict(SlotsAfter(SlotsUpTo(k - 1, a), f, 0, 0), f)
            lat0 == IF r0 = <<>> THEN <<>> ELSE Trim(CellBy(s0.header, Cols(s0.sep), r0[1], N_LATITUDE))
            lon0 == IF r0 = <<>> THEN <<>> ELSE Trim(CellBy(s0.header, Cols(s0.sep), r0[1], N_LONGITUDE))
            lat1 == IF r1 = <<>> THEN <<>> ELSE Trim(CellBy(s1.header, cols, r1[1], N_LATITUDE))
            lon1 == IF r1 = <<>> THEN <<>> ELSE Trim(CellBy(s1.header, cols, r1[1], N_LONGITUDE))
            posOK == IF Free(f) \/ IsSurface(f) \/ vd.k = "free" \/ ev.wall_ms >= 9000 THEN TRUE
                     ELSE IF vd.k = "decode" THEN
                          LET la == ParseDeg(lat1)  lo == ParseDeg(lon1) IN
                          la # <<>> /\ lo # <<>> /\ Abs(la[1] - vd.lat) <= 10 /\ Abs(lo[1] - vd.lon) <= 10
                     ELSE lat1 = lat0 /\ lon1 = lon0
            others == \A b \in SnapAddrs(s0) \ {a} : SnapRow(s1, b) # <<>> /\ DropAges(SnapRow(s1, b)[1]) = DropAges(SnapRow(s0, b)[1])
            cntk == IF s1.counts = <<>> THEN <<>> ELSE ParseCounts(s1.counts[1])
            dfsk == [j \in 1..k |-> lis[idx[j]].df]
        IN  /\ Chk("C16", "cli.stream.counters", ev.args.c => cntk = ExpectedCounts(dfsk), ev, tg)
            /\ Chk("C16", "cli.stream.table", SnapAddrs(s1) = {lis[idx[j]].a : j \in 1..k}, ev, tg)
            /\ Chk("C11", "cli.present", r1 # <<>>, ev, tg)
            /\ Chk("C11", "cli.others", others /\ SnapAddrs(s1) \subseteq SnapAddrs(s0) \cup {a}, ev, tg)
            /\ (r1 = <<>> \/ Free(f) \/ ~fit \/
                 (/\ Chk("C11", "cli.alt", AdmAlt(pre, post.alt, f, ctx), ev, tg)
                  /\ Chk("C11", "cli.squawk", AdmSq(pre, post.sq, f, ctx), ev, tg)
                  /\ Chk("C11", "cli.position", posOK, ev, tg)
                  /\ Chk("C11", "cli.callsign", IsCommB(f) \/ AdmCs(pre, post.cs, f, ctx), ev, tg)
                  /\ Chk("C11", "cli.gs", IsCommB(f) \/ AdmGs(pre, post.gs, f, ctx, NoAux.adv), ev, tg)
                  /\ Chk("C11", "cli.track", IsCommB(f) \/ IsSurface(f) \/ AdmTrk(pre, post.trk, f, ctx, NoAux.adv), ev, tg)
                  /\ Chk("C11", "cli.vrate", IsCommB(f) \/ (IsVel(f) /\ ~IsVel12(f)) \/ AdmVr(pre, post.vr, f, ctx, NoAux.adv), ev, tg)))
  IN  /\ Chk("C11", "cli.exit", ev.code = 0, ev, "exit")
      /\ Chk("DRIFT", "refresh.per.frame", (ev.code = 0 /\ nine) => Len(ev.snaps) = m, ev, "stream")
      /\ (IF usable THEN \A k \in 1..m : StepOK(k) ELSE TRUE)
      \* whatever the number of refreshes: the last one shows the aircraft and the counts of ALL frames that reached the decoder
      /\ (IF ev.code = 0 /\ nine /\ m > 0 /\ ev.args.d >= 60
          THEN LET sl == IF ev.snaps = <<>> THEN Empty ELSE ev.snaps[Len(ev.snaps)]
                   cl == IF sl.counts = <<>> THEN <<>> ELSE ParseCounts(sl.counts[1])
               IN  /\ Chk("C16", "cli.stream.final.table", SnapAddrs(sl) = {lis[idx[j]].a : j \in 1..m}, ev, "final")
                   /\ Chk("C16", "cli.stream.final.counters", ev.args.c => cl = ExpectedCounts([j \in 1..m |-> lis[idx[j]].df]), ev, "final")
          ELSE TRUE)
      /\ Mark("C11", usable /\ m > 0, ev)
      /\ Mark("C16", usable /\ m > 0 /\ ev.args.f # <<>>, ev)

(***************************** refresh schedule ***************************)
\* ev: [u (s), t0 (ms: connection accepted = reader run started), jitter (ms), frames : seq of [t (ms sent), refreshed (BOOLEAN)]]
\* times are the peer's; a frame sent at t is applied within [t, t + jitter]; the stamp is carried as an interval
RefreshStep(ev) ==
  LET J == ev.jitter
      RECURSIVE Walk(_, _, _)
      Walk(k, lo, hi) ==
        IF k > Len(ev.frames) THEN TRUE
        ELSE LET fr   == ev.frames[k]
                 must == Due(fr.t, hi, ev.u)
                 may  == Due(fr.t + J, lo, ev.u)
             IN  /\ Chk("DRIFT", "refresh.schedule", (fr.refreshed => may) /\ (must => fr.refreshed), ev,
                        IF fr.refreshed THEN "early." \o ToString(k) ELSE "withheld." \o ToString(k))
                 /\ (IF fr.refreshed THEN Walk(k + 1, fr.t, fr.t + J) ELSE Walk(k + 1, lo, hi))
  IN  /\ Walk(1, ev.t0 - J + ev.u * 1000, ev.t0 + J + ev.u * 1000)
      /\ Mark("DRIFT", Len(ev.frames) > 0, ev)

(***************************** -D downlink log ****************************)
\* ev: [lines, args.f, log : logged lines as code points, code]
DlogStep(ev) ==
  LET n    == Len(ev.lines)
      lis  == [k \in 1..n |-> LineInfo(ev.lines[k])]
      \* frames that reach the decoder: gate, non-zero address (both readings for formats outside the nine), filter
      idx  == SelectSeq([k \in 1..n |-> k], LAMBDA k : lis[k].isf /\ PassesFilter(lis[k].df, ev.args.f)
                          /\ (IF lis[k].df \in NineDF THEN lis[k].a # 0 ELSE lis[k].a # 0 /\ Field(lis[k].f, 9, 32) # 0))
      ambiguous == \E k \in 1..n : lis[k].isf /\ lis[k].df \notin NineDF /\ ((lis[k].a = 0) # (Field(lis[k].f, 9, 32) = 0))
      pats == Flatten([j \in 1..Len(idx) |-> DlogRecord(lis[idx[j]].f, lis[idx[j]].a)], <<>>)
      fm   == FirstMismatch(ev.log, pats)
  IN  /\ Chk("DRIFT", "dlog.records", (ev.code = 0 /\ ~ambiguous) => fm = 0, ev,
             IF fm = -1 THEN "count" ELSE IF fm > 0 THEN "line." \o ToString(fm) ELSE "ok")
      /\ Mark("DRIFT", Len(idx) > 0 /\ ev.code = 0 /\ ~ambiguous, ev)

\* ev: [lines, args.M : seq of DF numbers, mlog : the logged lines that start with "ERROR - DF:", code]
MlogStep(ev) ==
  LET n    == Len(ev.lines)
      lis  == [k \in 1..n |-> LineInfo(ev.lines[k])]
      M    == ToSet(ev.args.M)
      idx  == SelectSeq([k \in 1..n |-> k], LAMBDA k : lis[k].isf /\ lis[k].df \in M
                          /\ (IF lis[k].df \in NineDF THEN lis[k].a # 0 ELSE lis[k].a # 0 /\ Field(lis[k].f, 9, 32) # 0))
      ambiguous == \E k \in 1..n : lis[k].isf /\ lis[k].df \in M /\ lis[k].df \notin NineDF /\ ((lis[k].a = 0) # (Field(lis[k].f, 9, 32) = 0))
      want == [j \in 1..Len(idx) |-> MlogRecord(lis[idx[j]].df, ev.lines[idx[j]])]
  IN  /\ Chk("DRIFT", "mlog.records", (ev.code = 0 /\ ~ambiguous) => ev.mlog = want, ev,
             IF Len(ev.mlog) # Len(want) THEN "count" ELSE "text")
      /\ Mark("DRIFT", Len(idx) > 0 /\ ev.code = 0 /\ ~ambiguous, ev)

(***************************** C17 country *********************************)
\* ev.runs: run-length encoding of row.reg over all 2^24 addresses
CountryStep(ev) ==
  LET runs == ev.runs
      n == Len(runs)
      inB(a) == {i \in 1..NBlocks : Blocks[i].lo <= a /\ a <= Blocks[i].hi}
      RunOK(r) ==
        LET bs == inB(r.lo) IN
        IF bs # {} THEN LET b == Blocks[CHOOSE i \in bs : TRUE] IN b.sure => (r.hi <= b.hi /\ r.reg = b.code)
        ELSE (\A i \in 1..NBlocks : Blocks[i].sure => (Blocks[i].hi < r.lo \/ Blocks[i].lo > r.hi)) /\ r.reg = "??"
      bad == {j \in 1..n : ~RunOK(runs[j])}
      \* the blocks ICAO keeps for itself: ICAO(1) F00000-F07FFF, ICAO(2) 899000-8993FF and F09000-F093FF.  How their code is
      \* spelled is not known to this table, but "shows that block's code" still means: the same code for the two ICAO(2)
      \* blocks, a different one for ICAO(1), and neither is a State's code or "??"
      RegAt(a) == LET ix == {j \in 1..n : runs[j].lo <= a /\ a <= runs[j].hi} IN IF ix = {} THEN "" ELSE runs[CHOOSE j \in ix : TRUE].reg
      sureCodes == {Blocks[i].code : i \in {k \in 1..NBlocks : Blocks[k].sure}}
      i1 == RegAt(15728640)   i2a == RegAt(9015296)   i2b == RegAt(15765504)
  IN  /\ Chk("C17", "icao.own.blocks", i2a = i2b /\ i1 # i2a /\ {i1, i2a} \cap (sureCodes \cup {"??", ""}) = {}
                                        /\ RegAt(15761407) = i1 /\ RegAt(9016319) = i2a /\ RegAt(15766527) = i2b, ev, "icao")
      /\ Chk("C17", "partition", n >= 1 /\ runs[1].lo = 0 /\ runs[n].hi = 16777215
                                  /\ \A j \in 1..(n - 1) : runs[j + 1].lo = runs[j].hi + 1, ev, "rle")
      /\ \A j \in bad : Viol("C17", "allocation", [i |-> runs[j].lo], runs[j].reg)
      /\ Mark("C17", TRUE, ev)
      /\ PrintT(<<"STAT", "C17", n, Cardinality(bad), Cardinality({i \in 1..NBlocks : Blocks[i].sure})>>)


(***************************** C14 / C15 printed table *********************)
\* ev: [flags, order : code points; rows : input rows (with regcp, ages in ms); header, sep, lines : code points]
RowByAddr(rows, a) == LET ix == {j \in 1..Len(rows) : rows[j].a = a} IN IF ix = {} THEN <<>> ELSE <<rows[CHOOSE j \in ix : TRUE]>>
PrintedAddrs(lines) == [j \in 1..Len(lines) |-> RowAddr(lines[j])]
GroupOK(G, names, on) == IF on THEN G \subseteq names ELSE G \cap names = {}
PrintStep(ev) ==
  LET cols  == Cols(ev.sep)
      names == {ColName(ev.header, cols[k]) : k \in 1..Len(cols)}
      fl    == ToSet(ev.flags)
      pa    == PrintedAddrs(ev.lines)
      key   == LastKey(ev.order)
      prow(j) == RowByAddr(ev.rows, pa[j])
      keyed == SelectSeq([j \in 1..Len(ev.lines) |-> j], LAMBDA j : prow(j) # <<>> /\ KeyOf(key, prow(j)[1]) # <<>>)
      ks    == [i \in 1..Len(keyed) |-> KeyOf(key, prow(keyed[i])[1])[1]]
  IN
  /\ Chk("C14", "layout", Len(ev.header) = Len(ev.sep) /\ Len(cols) >= 10 /\ (\A k \in 1..Len(cols) : ColName(ev.header, cols[k]) # <<>>)
                           /\ BaseCols \subseteq names, ev, "header")
  /\ Chk("C14", "groups", /\ GroupOK(GroupA, names, 65 \in fl) /\ GroupOK(GroupS, names, 115 \in fl)
                           /\ GroupOK(GroupAng, names, 97 \in fl) /\ GroupOK(GroupW, names, 119 \in fl)
                           /\ GroupOK(GroupE, names, 101 \in fl), ev, "groups")
  /\ \A j \in 1..Len(ev.lines) :
       LET r == prow(j) IN
       /\ Chk("C14", "row.known", r # <<>>, [i |-> ev.i], "unknown.row")
       /\ Chk("C14", "row.cells", (r # <<>> /\ Fits(cols, ev.header, r[1])) => RowOK(ev.lines[j], cols, ev.header, r[1]), [i |-> ev.i], "cells")
       /\ Chk("C14", "marker.without.value", (r # <<>> /\ Fits(cols, ev.header, r[1])) => MarkersOK(ev.lines[j], cols, ev.header), [i |-> ev.i], "marker")
       /\ Chk("C17", "shown.country", r # <<>> => CellBy(ev.header, cols, ev.lines[j], N_RG) = PadR(r[1].regcp, 2), [i |-> ev.i], "RG")
       /\ Chk("C14", "threat.marker", (r # <<>> /\ Fits(cols, ev.header, r[1])) => ThreatOK(ev.lines[j], cols, ev.header, r[1]), [i |-> ev.i], "threat")
       /\ Chk("C14", "row.width", (r # <<>> /\ Fits(cols, ev.header, r[1])) => Len(ev.lines[j]) = Len(ev.header), [i |-> ev.i], "width")
  /\ Chk("C14", "one.line.each", Len(ev.lines) = Len(ev.rows), ev, "count")
  /\ Mark("C14", Len(ev.rows) > 0, ev)
  /\ Mark("C17", Len(ev.rows) > 0, ev)
  /\ Chk("C15", "each.once", Len(ev.lines) = Len(ev.rows) /\ Cardinality(ToSet(pa)) = Len(ev.rows)
                              /\ ToSet(pa) = {ev.rows[j].a : j \in 1..Len(ev.rows)}, ev, "permutation")
  /\ Chk("C15", "order", IF key = 0 THEN NonDecr(pa) ELSE Monotone(key, ks), ev,
         IF key = 0 THEN "address" ELSE IF key \in {78, 83, 87, 69, 100, 68} THEN "float.key" ELSE "key")
  /\ Mark("C15", Len(ev.rows) > 1, ev)


(***************************** C18 TCP feed ********************************)
\* ev: [faults, conns : seq of [kind, t_accept, t_prev_end, refused_before, lines, partial, t_end], noaccept, alive, last]
TcpStep(ev) ==
  LET nc == Len(ev.conns)
      allLines == [k \in 1..nc |-> ev.conns[k].lines \o (IF ev.conns[k].partial = <<>> THEN <<>> ELSE <<ev.conns[k].partial>>)]
      addrsOf(k) == {LineInfo(allLines[k][j]).a : j \in {x \in 1..Len(allLines[k]) :
                        LET li == LineInfo(allLines[k][x]) IN li.isf /\ li.a # 0 /\ li.df \in NineDF}}
      expected == UNION {addrsOf(k) : k \in 1..nc}
      \* frames of formats outside the nine: which row they touch is not fixed by any property (either reading of the address)
      wildOf(k) == UNION {LET li == LineInfo(allLines[k][j]) IN
                            IF li.isf /\ li.df \notin NineDF THEN {li.a, Field(li.f, 9, 32)} ELSE {} : j \in 1..Len(allLines[k])}
      wild == UNION {wildOf(k) : k \in 1..nc}
      shown == IF ev.last = <<>> THEN {} ELSE {RowAddr(ev.last[1].rows[j]) : j \in 1..Len(ev.last[1].rows)}
      healthy == nc > 0 /\ ev.conns[nc].kind = "healthy"
  IN
  /\ Chk("C18", "reconnects", ~ev.noaccept /\ healthy /\ nc = Cardinality({j \in 1..Len(ev.faults) : ev.faults[j] # "refuse"}) + 1, ev, "gave.up")
  /\ Chk("C18", "alive", ev.alive, ev, "exited")
  /\ \A k \in 1..nc :
       LET c == ev.conns[k]  gap == c.t_accept - c.t_prev_end IN
       IF c.refused_before > 0
       THEN Chk("C18", "pause", gap >= 5000 * c.refused_before - 500 /\ gap <= 5000 * c.refused_before + 4000, [i |-> ev.i],
                IF gap < 5000 * c.refused_before - 500 THEN "too.early" ELSE "too.late")
       ELSE Chk("C18", "prompt", k = 1 \/ gap <= 4500, [i |-> ev.i], "slow.reconnect")
  /\ Chk("C18", "table.kept", (healthy /\ ~ev.noaccept) => expected \subseteq shown, ev, "lost.aircraft")
  /\ Chk("C18", "partial.line", (healthy /\ ~ev.noaccept) => shown \subseteq (expected \cup wild), ev, "phantom.aircraft")
  /\ Chk("C13", "tcp.junk", (healthy /\ ~ev.noaccept) => expected \subseteq shown, ev, "junk")
  /\ Mark("C18", Len(ev.faults) > 0, ev)
  /\ Mark("C13", \E k \in 1..nc : ev.conns[k].kind = "junk", ev)


(***************************** CLI pairs ***********************************)
\* two runs of the real binary on the same input, option sets differing in one option; last refresh of each.
\* ev: [opt, headerA, sepA, rowsA, headerB, sepB, rowsB, codeA, codeB]; DIST column excluded for -O
CliPairStep(ev) ==
  LET cols == Cols(ev.sepA)
      same == ev.headerA = ev.headerB /\ ev.sepA = ev.sepB /\ Len(ev.rowsA) = Len(ev.rowsB)
      \* for -O the DIST cell may differ (and may overflow its column, shifting what follows): compare what is left of it
      \* and, counted from the end of the line, what is right of it
      dcol == LET ix == {k \in 1..Len(cols) : ColName(ev.headerA, cols[k]) = N_DIST} IN IF ix = {} THEN <<>> ELSE <<cols[CHOOSE k \in ix : TRUE]>>
      TailN(t, n) == IF n >= Len(t) THEN t ELSE SubSeq(t, Len(t) - n + 1, Len(t))
      NoAges(t) == IF Len(t) >= 6 THEN SubSeq(t, 1, Len(t) - 6) ELSE t          \* "PTH LC" at the end of a row are ages
      cellsEq(j) ==
        IF ev.opt = "O" /\ dcol # <<>> THEN
             LET c == dcol[1]  n == Len(ev.headerA) - (c.s + c.w - 1) IN
             /\ SubSeq(ev.rowsA[j], 1, Min(c.s - 1, Len(ev.rowsA[j]))) = SubSeq(ev.rowsB[j], 1, Min(c.s - 1, Len(ev.rowsB[j])))
             /\ NoAges(TailN(ev.rowsA[j], n)) = NoAges(TailN(ev.rowsB[j], n))
        ELSE NoAges(ev.rowsA[j]) = NoAges(ev.rowsB[j])
  IN  /\ Chk("C19", "cli.exit", ev.codeA = 0 /\ ev.codeB = 0, ev, ev.opt)
      /\ Chk("C19", "cli.same.table", same /\ \A j \in 1..Len(ev.rowsA) : cellsEq(j), ev, ev.opt)
      /\ Mark("C19", Len(ev.rowsA) > 0, ev)

(***************************** events **************************************)
RunStep(ev) ==
  LET s    == ev.slot
      args == st.args[s]
  IN
  IF ev.out = "noargs" \/ args = <<>> THEN st
  ELSE
  LET a1   == args[1]
      tbl  == st.tbl[s]
      aux  == st.aux[s]
      obs  == ParseObs(a1.O)
      n    == Len(ev.lines)
      sane == DOMAIN tbl = ToSet(ev.k0)
      pt   == PostTbl(tbl, ev)
      lis  == [k \in 1..n |-> LineInfo(ev.lines[k])]
      ai   == AppliedIdx(lis, a1.f)
      tlo  == ev.tb + st.off
      thi  == ev.ta + st.off
      \* aux after the run: fold the applied frames in order; rows that are gone forget everything
      RECURSIVE Fold(_, _)
      Fold(x, j) == IF j > Len(ai) THEN x
                    ELSE LET li == lis[ai[j]]
                             xa == AuxAfter(AuxOf(x, li.a), li.f, tlo, thi)
                         IN  Fold([b \in (DOMAIN x) \cup {li.a} |-> IF b = li.a THEN xa ELSE x[b]], j + 1)
      auxF == Fold(aux, 1)
      aux1 == [b \in (DOMAIN auxF) \cap ToSet(ev.k1) |-> auxF[b]]
      ok ==
        /\ (IF sane THEN TRUE ELSE PrintT(<<"TOOLERR", "table out of sync", ev.i>>))
        /\ Chk("C01", "completed", ev.ok, ev, ev.outk)
        \* a reader run that panics, hangs or takes the process down decides nothing else: whatever property is being
        \* checked fails on this input (its lines were not all processed)
        /\ (IF Prop \in {"ALL", "DRIFT", "C01"} THEN TRUE ELSE Chk(Prop, "run.completed", ev.ok, ev, ev.outk))
        /\ Chk("C01", "later.processed", (ev.ok /\ sane /\ Len(ai) <= 11) =>
                   {lis[ai[j]].a : j \in 1..Len(ai)} \subseteq ToSet(ev.k1), ev, "sentinel")
        /\ Mark("C01", TRUE, ev)
        /\ (IF ~sane THEN TRUE
            ELSE IF n = 1 THEN OneLine(ev, a1, tbl, aux, obs)
            ELSE IF Wild(lis, a1.f) THEN TRUE
            ELSE MultiLine(ev, a1, tbl, aux))
        /\ (IF sane THEN PairChecks(ev, pt) ELSE TRUE)
  IN  IF ok THEN [st EXCEPT !.tbl[s] = pt, !.aux[s] = aux1, !.last = <<ev, pt>>]
      ELSE st

ResetStep(ev) ==
  LET s == ev.slot IN
  [st EXCEPT !.args[s] = IF ev.argerr = <<>> THEN <<ev.args>> ELSE <<>>,
             !.tbl[s] = EmptyF, !.aux[s] = EmptyF,
             !.last = IF s = 0 THEN <<>> ELSE @]

TickStep(ev) ==
  [st EXCEPT !.off = @ + ev.ms,
             !.tbl = [s \in Slots |-> [a \in DOMAIN st.tbl[s] |-> ShiftRow(st.tbl[s][a], ev.ms)]]]

SaveStep(ev) ==
  [st EXCEPT !.saved = [k \in (DOMAIN st.saved) \cup {ev.id} |->
                          IF k = ev.id THEN [aux |-> st.aux, off |-> st.off, now |-> ev.now] ELSE st.saved[k]]]

TblOfRows(rows) == [a \in {rows[j].a : j \in 1..Len(rows)} |-> (rows[CHOOSE j \in 1..Len(rows) : rows[j].a = a]).row]
RestoreStep(ev) ==
  LET sv == st.saved[ev.id] IN
  [st EXCEPT !.aux = sv.aux,
             !.off = sv.off - (ev.now - sv.now),
             !.tbl = [s \in Slots |-> IF Has(ev.tables, ToString(s)) THEN TblOfRows(ev.tables[ToString(s)]) ELSE EmptyF],
             !.last = <<>>]

Step(ev) ==
  IF ev.e = "reset" THEN ResetStep(ev)
  ELSE IF ev.e = "run" THEN RunStep(ev)
  ELSE IF ev.e = "tick" THEN TickStep(ev)
  ELSE IF ev.e = "save" THEN SaveStep(ev)
  ELSE IF ev.e = "restore" THEN RestoreStep(ev)
  ELSE IF ev.e = "clipair" THEN (IF CliPairStep(ev) THEN st ELSE st)
  ELSE IF ev.e = "tcp" THEN (IF TcpStep(ev) THEN st ELSE st)
  ELSE IF ev.e = "print" THEN (IF PrintStep(ev) THEN st ELSE st)
  ELSE IF ev.e = "country" THEN (IF CountryStep(ev) THEN st ELSE st)
  ELSE IF ev.e = "cli" THEN (IF CliStep(ev) THEN st ELSE st)
  ELSE IF ev.e = "dlog" THEN (IF DlogStep(ev) THEN st ELSE st)
  ELSE IF ev.e = "refresh" THEN (IF RefreshStep(ev) THEN st ELSE st)
  ELSE IF ev.e = "mlog" THEN (IF MlogStep(ev) THEN st ELSE st)
  ELSE IF ev.e = "clistream" THEN (IF CliStreamStep(ev) THEN st ELSE st)
  ELSE IF ev.e = "icaosweep" THEN (IF IcaoSweepStep(ev) THEN st ELSE st)
  ELSE IF ev.e = "burst" THEN (IF BurstStep(ev) THEN st ELSE st)
  ELSE st

Init == l = 1 /\ st = St0
Next == /\ l <= Len(Rec)
        /\ l' = l + 1
        /\ st' = Step(Rec[l])
        /\ (IF l = Len(Rec) THEN PrintT(<<"DONE", l>>) ELSE TRUE)
Spec == Init /\ [][Next]_<<l, st>>

\* the whole trace was consumed (one state per event plus the initial one)
Consumed == TLCGet("stats").diameter = Len(Rec) + 1
                \/ PrintT(<<"UNCONSUMED", TLCGet("stats").diameter, Len(Rec)>>)
=============================================================================
