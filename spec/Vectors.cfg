SPECIFICATION Spec
