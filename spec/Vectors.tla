------------------------------- MODULE Vectors -------------------------------
(***************************************************************************)
(* Independent validation of the oracle: published worked examples ("The   *)
(* 1090 MHz Riddle"), the address-recovery values pinned by the            *)
(* repository's own tests, algebraic round trips over whole small domains. *)
(* These ASSUMEs are evaluated by TLC before any run that EXTENDS this     *)
(* module; they never judge the implementation.                            *)
(***************************************************************************)
EXTENDS ModeS, Cpr, CommB, VecData, FiniteSets, TLC

AllV == <<V_ident_KLM1023, V_pos_even, V_pos_odd, V_vel_sub, V_bds20, V_bds17, V_bds40, V_bds50, V_bds60,
          V_addr_df20, V_addr_df0, V_addr_df5>>

ASSUME \A k \in 1..Len(AllV) : Syndrome(AllV[k]) = SyndromeBits(AllV[k])
ASSUME \A k \in 1..4 : Syndrome(AllV[k]) = 0 /\ ParityOK(AllV[k]) /\ LenAgrees(AllV[k])
ASSUME Address(V_addr_df20) = 7453696      \* 71BC00
ASSUME Address(V_addr_df0) = 4921598       \* 4B18FE
ASSUME Address(V_addr_df5) = 5023854       \* 4CA86E
ASSUME Address(V_pos_even) = 4219421       \* 40621D
ASSUME DFof(V_pos_even) = 17 /\ DFof(V_addr_df0) = 0 /\ DFof(V_addr_df5) = 5 /\ DFof(V_bds20) = 20

ASSUME Callsign(V_ident_KLM1023) = <<75, 76, 77, 49, 48, 50, 51>> /\ TCof(V_ident_KLM1023) = 4 /\ STof(V_ident_KLM1023) = 0
ASSUME Callsign(V_bds20) = <<75, 76, 77, 49, 48, 49, 55>>
ASSUME Alt12(AC12of(V_pos_even)) = AltVal(38000) /\ TCof(V_pos_even) = 11
ASSUME Field(V_pos_even, 54, 54) = 0 /\ Field(V_pos_even, 55, 71) = 93000 /\ Field(V_pos_even, 72, 88) = 51372
ASSUME Field(V_pos_odd, 54, 54) = 1 /\ Field(V_pos_odd, 55, 71) = 74158 /\ Field(V_pos_odd, 72, 88) = 50194
\* 52.25720 N 3.91937 E (even newest), 52.26578 N 3.93891 E (odd newest)
ASSUME LET p == CprDecode(93000, 51372, 74158, 50194, 0) IN Abs(p[1] - 52257202) <= 2 /\ Abs(p[2] - 3919373) <= 2
ASSUME LET p == CprDecode(93000, 51372, 74158, 50194, 1) IN Abs(p[1] - 52265780) <= 5 /\ Abs(p[2] - 3938913) <= 5
\* 159 kt, 182 degrees, -832 ft/min
ASSUME TCof(V_vel_sub) = 19 /\ STof(V_vel_sub) = 1 /\ Vew(V_vel_sub) = -8 /\ Vns(V_vel_sub) = -159
ASSUME SpeedKt(Vew(V_vel_sub), Vns(V_vel_sub)) = 159 /\ Track(Vew(V_vel_sub), Vns(V_vel_sub)) = 182
ASSUME VRate(V_vel_sub) = -832

\* track: exact axes and diagonals, both sides
ASSUME Track(0, 1) = 0 /\ Track(1, 0) = 90 /\ Track(0, -1) = 180 /\ Track(-1, 0) = 270
ASSUME Track(1, 1) = 45 /\ Track(1, -1) = 135 /\ Track(-1, -1) = 225 /\ Track(-1, 1) = 315
ASSUME Track(1, 1022) = 0 /\ Track(-1, 1022) = 359 /\ Track(1, -1022) = 179 /\ Track(-1, -1022) = 180
ASSUME Track(1022, 1) = 89 /\ Track(1022, -1) = 90 /\ Track(-1022, 1) = 270 /\ Track(-1022, -1) = 269
ASSUME Track(957, 598) = 57 /\ Track(598, 957) = 32    \* atan2(957,598) = 57.9999987 deg

\* identity code: encoder / decoder round trip over all 4096 squawks, and single-bit meaning
ASSUME \A a \in 0..7, b \in 0..7 : \A c \in 0..7, d \in 0..7 : Squawk(EncSquawk(a, b, c, d)) = 1000 * a + 100 * b + 10 * c + d
ASSUME Squawk(2048) = 1000 /\ Squawk(4096) = 10 /\ Squawk(32) = 100 /\ Squawk(16) = 1 /\ Squawk(1) = 4 /\ Squawk(64) = 0
\* the repository's own pinned example: 28001A1B1F0706 -> 7700 ... identity field of V_addr_df5
ASSUME Squawk(ID13of(V_addr_df5)) \in 0..7777

\* altitude, Q = 1: round trip over every multiple of 25 ft the code can express
ASSUME \A n \in 40..2047 : Alt13(EncAlt13(25 * n - 1000)) = AltVal(25 * n - 1000)
ASSUME \A n \in 0..39 : Alt13((n \div 32) * 128 + ((n \div 16) % 2) * 32 + 16 + (n % 16)) = AltNone
ASSUME \A n \in 40..2047 : Alt12(EncAlt12(25 * n - 1000)) = AltVal(25 * n - 1000)
ASSUME Alt13(0) = AltNone /\ Alt13(64) = AltAny
\* altitude, Q = 0 (Gillham): among the 2^11 codes with M = 0, Q = 0 the legal ones decode to every
\* 100-ft step from -1200 ft to 126700 ft exactly once (so negative ones give no altitude) and
\* neighbouring altitudes differ in exactly one code bit (Gray property)
Q0Codes == {c \in 0..8191 : CB(c, 6) = 0 /\ CB(c, 8) = 0}
GillhamRaw(c) ==   \* the decoded value in feet including negative ones, or 999999 when illegal
  LET one0 == Gray(<<CB(c, 0), CB(c, 2), CB(c, 4)>>)
      one1 == IF one0 = 7 THEN 5 ELSE IF one0 = 5 THEN 7 ELSE one0
      five == Gray(<<CB(c, 10), CB(c, 12), CB(c, 1), CB(c, 3), CB(c, 5), CB(c, 7), CB(c, 9), CB(c, 11)>>)
      one  == IF five % 2 = 1 THEN 6 - one1 ELSE one1
  IN  IF one0 = 0 \/ one1 > 5 THEN 999999 ELSE 100 * (5 * five + one - 13)
Legal == {c \in Q0Codes : GillhamRaw(c) # 999999}
ASSUME Cardinality(Q0Codes) = 2048 /\ Cardinality(Legal) = 1280
ASSUME {GillhamRaw(c) : c \in Legal} = {100 * k : k \in -12..1267}
PopCount(x) == LET RECURSIVE pc(_) pc(v) == IF v = 0 THEN 0 ELSE (v % 2) + pc(v \div 2) IN pc(x)
CodeOf == [h \in {100 * k : k \in -12..1267} |-> CHOOSE c \in Legal : GillhamRaw(c) = h]
ASSUME \A k \in -12..1266 : PopCount(XorI(CodeOf[100 * k], CodeOf[100 * k + 100])) = 1
ASSUME \A c \in Legal : Alt13(c) = IF GillhamRaw(c) >= 0 THEN AltVal(GillhamRaw(c)) ELSE AltNone
ASSUME \A c \in Q0Codes \ Legal : c # 0 => Alt13(c) = AltNone

\* encoders produce frames the acceptance rules take, for the right aircraft
ASSUME \A a \in {1, 4219421, 16777215, 11184810} :
         /\ Syndrome(MkDF17(5, a, MeIdent(4, 3, <<1, 2, 3, 48, 49, 32, 32, 32>>))) = 0
         /\ Address(MkDF17(5, a, MeIdent(4, 3, <<1, 2, 3, 48, 49, 32, 32, 32>>))) = a
         /\ Syndrome(MkDF11(5, a, 0)) = 0 /\ Syndrome(MkDF11(5, a, 77)) = 77 /\ Address(MkDF11(5, a, 77)) = a
         /\ Address(MkShort(4, 0, EncAlt13(35000), a)) = a /\ Address(MkShort(5, 0, EncSquawk(7, 5, 0, 0), a)) = a
         /\ Address(MkLong(20, 0, EncAlt13(35000), MBof(V_bds40), a)) = a
         /\ Address(MkShort(0, 0, 0, a)) = a /\ Address(MkLong(16, 0, 0, MBof(V_bds40), a)) = a
ASSUME Callsign(MkDF17(5, 1, MeIdent(4, 3, <<1, 2, 3, 48, 49, 32, 0, 27>>))) = <<65, 66, 67, 48, 49>>
ASSUME MkDF17(5, 4219421, MBof(V_pos_even)) = V_pos_even

\* CPR: encode / decode round trip on a small grid (the stratified lattice runs in MC_cpr)
RoundTripOK(lat5, lon5, dlat5, dlon5, i) ==   \* older frame at (lat5,lon5) parity 1-i, newer at +d parity i
  LET old == CprEncode(lat5, lon5, 1 - i)
      new == CprEncode(lat5 + dlat5, lon5 + dlon5, i)
      y0 == IF i = 0 THEN new[1] ELSE old[1]   x0 == IF i = 0 THEN new[2] ELSE old[2]
      y1 == IF i = 1 THEN new[1] ELSE old[1]   x1 == IF i = 1 THEN new[2] ELSE old[2]
      p  == CprDecode(y0, x0, y1, x1, i)
  IN  p = NoPos \/ (Abs(p[1] - 10 * (lat5 + dlat5)) <= 50 /\ Abs(PMod(p[2] - 10 * (lon5 + dlon5) + 180000000, 360000000) - 180000000) <= 3000)
ASSUME \A la \in {-8600000, -5212345, -1, 0, 1, 1047000, 5226578, 8650000} :
         \A lo \in {-17999999, -9000000, -1, 0, 393891, 17999000} :
           \A i \in {0, 1} : RoundTripOK(la, lo, 300, -400, i)
ASSUME CprEncode(5225720, 391937, 0) = <<93000, 51372>>
ASSUME CprEncode(5226578, 393891, 1) = <<74158, 50194>>

\* Comm-B worked examples (1090 MHz Riddle)
ASSUME Valid17S(V_bds17) /\ Caps17(V_bds17) = [b40 |-> 1, b50 |-> 1, b60 |-> 1]
ASSUME Valid40L(V_bds40) /\ Mcp40(V_bds40) = 3008 /\ Fms40(V_bds40) = 3008 /\ BaroOK40(V_bds40, 1020) /\ ~Valid17L(V_bds40)
ASSUME Valid50L(V_bds50) /\ RollOK50(V_bds50, 2) /\ TrackOK50(V_bds50, 114) /\ Gs50(V_bds50) = 438
       /\ TarOK50(V_bds50, 0) /\ Tas50(V_bds50) = 424 /\ Plausible50(V_bds50) /\ NonZero50(V_bds50)
       /\ 45 * RollS50(V_bds50) = 540 /\ 8 * TarS50(V_bds50) = 32      \* 2.109 deg, 0.125 deg/s
ASSUME Valid60L(V_bds60) /\ HdgOK60(V_bds60, 42) /\ Ias60(V_bds60) = 252 /\ MachMilli60(V_bds60) = 420
       /\ BaroRate60(V_bds60) = -1920 /\ InerRate60(V_bds60) = -1920 /\ Plausible60(V_bds60)
ASSUME BdsByte(V_bds20) = 32
\* encoders invert the field extractors
ASSUME \A r \in {-280, -1, 1, 280} : \A t \in {1, 1024, 2047} : \A ta \in {-512, -5, 5, 511} :
         LET f == MkLong(20, 0, 0, Mb50(r, t, 219, ta, 212), 4219421) IN
         RollS50(f) = r /\ TrackU50(f) = t /\ TarS50(f) = ta /\ Gs50(f) = 438 /\ Tas50(f) = 424 /\ Valid50S(f)
ASSUME \A br \in {-187, -1, 1, 187} : LET f == MkLong(21, 0, 0, Mb60(300, 250, 200, br, -br), 1) IN
         BaroRate60(f) = 32 * br /\ InerRate60(f) = -32 * br /\ HdgU60(f) = 300 /\ Ias60(f) = 250 /\ MachMilli60(f) = 800 /\ Valid60S(f)
ASSUME LET f == MkLong(20, 0, 0, Mb40(188, 190, 2132), 1) IN Valid40S(f) /\ Mcp40(f) = 3008 /\ Fms40(f) = 3040 /\ BaroOK40(f, 1013)
ASSUME LET f == MkLong(20, 0, 0, Mb17(1, 1, 0, 1), 1) IN Valid17S(f) /\ Caps17(f) = [b40 |-> 1, b50 |-> 0, b60 |-> 1]
ASSUME LET f == MkLong(20, 0, 0, Mb20(<<1, 2, 3, 48, 49, 32, 32, 32>>), 1) IN BdsByte(f) = 32 /\ Callsign(f) = <<65, 66, 67, 48, 49>>
ASSUME LET f == MkLong(20, 0, 0, Mb30(1, 0), 1) IN BdsByte(f) = 48 /\ Threat30(f) /\ ~Threat30(MkLong(20, 0, 0, Mb30(0, 0), 1))

VARIABLE x
Init == x = 0
Next == x' = x
Spec == Init /\ [][Next]_x
=============================================================================
