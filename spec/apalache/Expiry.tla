------------------------------- MODULE Expiry -------------------------------
(***************************************************************************)
(* The expiry protocol of C12, abstracted to integers and finite sets so   *)
(* that Apalache can discharge an INDUCTIVE invariant, i.e. for unbounded  *)
(* clocks, counters and histories (the TLC instances of Model.tla are      *)
(* bounded).  Time is in whole seconds.                                    *)
(*   Frame(a): an accepted frame of aircraft a is processed: row created   *)
(*             or refreshed, then the sweep (every 11th frame after the    *)
(*             last one) removes rows not heard for D seconds or more      *)
(*   Tick(d) : the clock advances                                          *)
(* Proved: an aircraft heard fewer than D seconds ago is in the table; a   *)
(* stale row survives at most 11 further accepted frames.                  *)
(***************************************************************************)
EXTENDS Integers, FiniteSets

CONSTANTS
  \* @type: Set(Int);
  Aircraft,
  \* @type: Int;
  D

VARIABLES
  \* @type: Int;
  now,
  \* @type: Int -> Int;
  heard,
  \* @type: Set(Int);
  table,
  \* @type: Int;
  ctr,
  \* @type: Int -> Int;
  since

ConstInit == Aircraft = {1, 2, 3} /\ D \in 1..100000

Stale(a) == now - heard[a] >= D

Init == /\ now = 0
        /\ heard = [a \in Aircraft |-> -1]
        /\ table = {}
        /\ ctr = 0
        /\ since = [a \in Aircraft |-> 0]

Frame(a) ==
  LET h1 == [heard EXCEPT ![a] = now]
      t1 == table \cup {a}
      sweep == ctr > 10
  IN  /\ heard' = h1
      /\ table' = IF sweep THEN {b \in t1 : now - h1[b] < D} ELSE t1
      /\ ctr' = IF sweep THEN 1 ELSE ctr + 1
      /\ since' = [b \in Aircraft |-> IF b = a THEN 0
                                      ELSE IF b \in table /\ now - heard[b] >= D THEN since[b] + 1 ELSE since[b]]
      /\ UNCHANGED now

Tick == /\ \E d \in 0..1000000 : now' = now + d
        /\ UNCHANGED <<heard, table, ctr, since>>

Next == (\E a \in Aircraft : Frame(a)) \/ Tick

\* the two statements of C12
Fresh == \A a \in Aircraft : (heard[a] >= 0 /\ now - heard[a] < D) => a \in table
Bound == \A a \in table : Stale(a) => since[a] <= 11

\* inductive strengthening
IndInv ==
  /\ now >= 0 /\ ctr >= 0 /\ ctr <= 11
  /\ \A a \in Aircraft : heard[a] <= now /\ heard[a] >= -1 /\ since[a] >= 0
  /\ \A a \in table : heard[a] >= 0 /\ since[a] <= ctr /\ (~Stale(a) => since[a] = 0)
  /\ Fresh
  /\ Bound

\* the same as an initial-state generator for the inductive step
IndInit ==
  /\ now \in Int
  /\ heard \in [Aircraft -> Int]
  /\ table \in SUBSET Aircraft
  /\ ctr \in Int
  /\ since \in [Aircraft -> Int]
  /\ IndInv
=============================================================================
