----------------------------- MODULE RefreshInd -----------------------------
(***************************************************************************)
(* The refresh schedule of Refresh.tla with arbitrary arrival gaps and an  *)
(* arbitrary update interval, the history of refreshes reduced to the last *)
(* two, so that Apalache can discharge an INDUCTIVE invariant (the TLC     *)
(* instances explore six frames over seven gap values).                    *)
(* Proved for every update in -100..100000 s and every sequence of         *)
(* arrivals: two consecutive refreshes are at least update + 1 s apart,    *)
(* the first one is not before 2 * update + 1 s after the start, and with  *)
(* a negative update every applied frame is followed by a refresh.         *)
(***************************************************************************)
EXTENDS Integers

CONSTANTS
  \* @type: Int;
  Update

VARIABLES
  \* @type: Int;
  now,
  \* @type: Int;
  stamp,
  \* @type: Int;
  nframes,
  \* @type: Int;
  nrefresh,
  \* @type: Int;
  last,
  \* @type: Int;
  prev

ConstInit == Update \in -100..100000

Secs(d) == IF d >= 0 THEN d \div 1000 ELSE -((-d) \div 1000)
Due(t, s, u) == Secs(t - s) > u

Init == now = 0 /\ stamp = Update * 1000 /\ nframes = 0 /\ nrefresh = 0 /\ last = -1 /\ prev = -1

Frame == \E g \in 1..100000000 :
           /\ now' = now + g /\ nframes' = nframes + 1
           /\ IF Due(now + g, stamp, Update)
              THEN /\ nrefresh' = nrefresh + 1 /\ prev' = last /\ last' = now + g /\ stamp' = now + g
              ELSE UNCHANGED <<nrefresh, prev, last, stamp>>
Next == Frame

EveryFrame == Update < 0 => nrefresh = nframes
Spaced == Update >= 0 => /\ (prev >= 0 => last - prev >= (Update + 1) * 1000)
                         /\ (last >= 0 => last >= (2 * Update + 1) * 1000)

IndInv ==
  /\ now >= 0 /\ nframes >= 0 /\ nrefresh >= 0 /\ nrefresh <= nframes
  /\ last >= -1 /\ prev >= -1
  /\ (Update < 0 => stamp <= now)
  /\ (nrefresh = 0 <=> last = -1) /\ (nrefresh <= 1 <=> prev = -1)
  /\ (last >= 0 => stamp = last /\ last <= now /\ last >= 1)
  /\ (last = -1 => stamp = Update * 1000)
  /\ (prev >= 0 => prev < last /\ prev >= 1)
  /\ EveryFrame
  /\ Spaced

IndInit ==
  /\ now \in Int /\ stamp \in Int /\ nframes \in Int /\ nrefresh \in Int /\ last \in Int /\ prev \in Int
  /\ IndInv
=============================================================================
