------------------------------- MODULE TcpInd -------------------------------
(***************************************************************************)
(* The TCP life-cycle of Tcp.tla (C18) with the peer's script replaced by  *)
(* a peer that chooses its behaviour afresh at every attempt, so that      *)
(* Apalache can discharge an INDUCTIVE invariant: for any number of        *)
(* faults, any fault order and an unbounded clock (the TLC instance        *)
(* MC_tcp explores scripts of at most three faults up to 20 s).            *)
(* Aircraft are numbered by the attempt that delivered them.               *)
(* Proved: nothing learned on any connection is ever lost from the table   *)
(* (expiry is C12's business), what a connection delivers is in the table  *)
(* while it is up, and an attempt never follows a refused one sooner than  *)
(* Pause.  Liveness (Recovers) stays with TLC.                             *)
(***************************************************************************)
EXTENDS Integers, FiniteSets, Apalache

CONSTANTS
  \* @type: Int;
  Pause

VARIABLES
  \* @type: Str;
  conn,
  \* @type: Str;
  kind,
  \* @type: Int;
  wake,
  \* @type: Int;
  notBefore,
  \* @type: Int;
  clock,
  \* @type: Set(Int);
  sent,
  \* @type: Bool;
  pending,
  \* @type: Set(Int);
  table,
  \* @type: Set(Int);
  learned,
  \* @type: Int;
  attempts

ConstInit == Pause \in 1..100000

Kinds == {"refuse", "close", "frames", "partial", "partialfin", "junk", "healthy"}
Conns == {"down", "sleeping", "up"}

Init == /\ conn = "down" /\ kind = "none" /\ wake = 0 /\ notBefore = 0 /\ clock = 0 /\ sent = {} /\ pending = FALSE
        /\ table = {} /\ learned = {} /\ attempts = 0

Attempt(k) ==
  /\ conn = "down"
  /\ attempts' = attempts + 1
  /\ kind' = k
  /\ IF k = "refuse"
     THEN /\ conn' = "sleeping" /\ wake' = clock + Pause /\ notBefore' = clock + Pause
          /\ UNCHANGED <<sent, pending>>
     ELSE /\ conn' = "up" /\ pending' = (k # "close") /\ sent' = {}
          /\ UNCHANGED <<wake, notBefore>>
  /\ UNCHANGED <<clock, table, learned>>

Wake == /\ conn = "sleeping" /\ clock >= wake
        /\ conn' = "down"
        /\ UNCHANGED <<kind, wake, notBefore, clock, sent, pending, table, learned, attempts>>

Deliver == /\ conn = "up" /\ pending
           /\ pending' = FALSE
           /\ sent' = {attempts}
           /\ table' = table \cup {attempts}
           /\ learned' = learned \cup {attempts}
           /\ UNCHANGED <<conn, kind, wake, notBefore, clock, attempts>>

PeerEnds == /\ conn = "up" /\ ~pending /\ kind # "healthy"
            /\ conn' = "down"
            /\ UNCHANGED <<kind, wake, notBefore, clock, sent, pending, table, learned, attempts>>

Tick == /\ \E d \in 1..1000000 : clock' = clock + d
        /\ UNCHANGED <<conn, kind, wake, notBefore, sent, pending, table, learned, attempts>>

Next == (\E k \in Kinds : Attempt(k)) \/ Wake \/ Deliver \/ PeerEnds \/ Tick

NoLoss == learned \subseteq table
PauseRespected == conn = "down" => clock >= notBefore
SentKept == conn = "up" => sent \subseteq table

IndInv ==
  /\ conn \in Conns /\ kind \in Kinds \cup {"none"}
  /\ clock >= 0 /\ attempts >= 0 /\ wake >= 0 /\ notBefore >= 0
  /\ (conn = "sleeping" => wake = notBefore)
  /\ (conn = "up" => kind \in Kinds \ {"refuse"} /\ attempts >= 1 /\ clock >= notBefore)
  /\ (\A a \in learned : a >= 1 /\ a <= attempts)
  /\ sent \subseteq learned
  /\ NoLoss
  /\ PauseRespected
  /\ SentKept

IndInit ==
  /\ conn \in Conns /\ kind \in Kinds \cup {"none"}
  /\ wake \in Int /\ notBefore \in Int /\ clock \in Int /\ attempts \in Int
  /\ sent = Gen(4) /\ table = Gen(6) /\ learned = Gen(5)      \* arbitrary sets of integers with up to 4 / 6 / 5 elements
  /\ pending \in BOOLEAN
  /\ IndInv
=============================================================================
