"""Per-property checks.  Each builds input scenarios, runs them through the real code, has TLC
validate the recorded traces against the specification under that property's step predicates,
runs the bounded model of the property's group, and reports."""
import os, random, sys, json, time
import vlib
from vlib import Report, ToolError, log
from gen import *
import frames as F


def conform(rep, prop, groups, profiles=('release',), prefix='s', maxlen=3000, key_fn=None):
    shards = chunk(groups, maxlen)
    for prof in profiles:
        binary = vlib.build_harness(prof)
        traces = vlib.exec_shards(binary, shards, '%s-%s-' % (prefix, prof))
        res = vlib.validate(traces, prop)
        rep.add_validation(res, key_fn)
    return len(shards)


def strat13(rng, n):
    """stratified 13-bit field values: all single bits, all pairs, boundaries, random"""
    vals = {0, 8191}
    for i in range(13):
        vals.add(1 << i)
        vals.add(8191 ^ (1 << i))
        for j in range(i):
            vals.add((1 << i) | (1 << j))
    while len(vals) < n:
        vals.add(rng.getrandbits(13))
    return sorted(vals)


# ----------------------------------------------------------------------------------------- C06
def c06(tier):
    rep = Report('C06', tier)
    rng = random.Random(vlib.seed())
    codes = list(range(8192)) if tier == 'thorough' else strat13(rng, 700)
    rep.exhaustive = tier == 'thorough'
    groups = []
    groups += sweep_groups(lambda v, a, r: short(5, v, a, r.getrandbits(14)), codes, OPTSETS[:3], rng)
    groups += sweep_groups(lambda v, a, r: long_(21, v, bits_of(r.getrandbits(56), 56), a, r.getrandbits(14)),
                           codes if tier == 'thorough' else codes[::2], OPTSETS[:3], rng)
    # every other format applied to a row that has a squawk: must not change it
    for opts in OPTSETS:
        for k in range(4 if tier == 'quick' else 40):
            a = 0x4b0000 + k
            g = [reset(opts), run1(df11(5, a)), run1(short(5, rng.getrandbits(13), a))]
            fr = other_format_frames(a, rng)
            rng.shuffle(fr)
            for l in fr:
                g.append(run1(l))
                g.append(run1(short(5, rng.getrandbits(13), a)) if rng.random() < 0.3 else run1(l))
            groups.append(g)
    conform(rep, 'C06', groups)
    rep.rule = ('identity field values (%s) x DF5/DF21 x {update of existing row, first frame} x option sets {none,-U,-R}, '
                'remaining bits random; plus every other format applied to a row holding a squawk. An event is '
                'non-trivial when the fed line is an applied DF5/DF21 frame (decided by the spec); distinct = distinct '
                '(line, slot)' % ('all 8192' if tier == 'thorough' else 'stratified: all 1- and 2-bit patterns + random'))
    vlib.nt_floor(rep, 1000)
    return rep


# ----------------------------------------------------------------------------------------- C05
def c05(tier):
    rep = Report('C05', tier)
    rng = random.Random(vlib.seed())
    if tier == 'thorough':
        c13 = list(range(8192))
        c12 = list(range(4096))
        tcs = list(range(9, 19))
    else:
        c13 = strat13(rng, 500)
        # all Q=1 codes with N < 48 (negative / zero boundary), Gillham 500-ft boundaries
        for n in range(48):
            c13.append(((n >> 5) << 7) | (((n >> 4) & 1) << 5) | 16 | (n & 15))
        c13 = sorted(set(c13))
        c12 = sorted(set([((c >> 7) << 6) | (c & 63) for c in c13]))
        tcs = [9, 11, 18]
    rep.exhaustive = tier == 'thorough'
    groups = []
    groups += sweep_groups(lambda v, a, r: short(4, v, a, r.getrandbits(14)), c13, OPTSETS[:3], rng)
    groups += sweep_groups(lambda v, a, r: long_(20, v, bits_of(r.getrandbits(56), 56), a, r.getrandbits(14)),
                           c13 if tier == 'thorough' else c13[::2], OPTSETS[:3], rng)
    for tc in tcs:
        groups += sweep_groups(lambda v, a, r: df17(5, a, me_airpos(tc, r.getrandbits(2), v, r.getrandbits(1),
                                                                    r.getrandbits(17), r.getrandbits(17))),
                               c12 if tier == 'thorough' else c12[::max(1, len(tcs) - 1)], OPTSETS[:3], rng)
    conform(rep, 'C05', groups)
    rep.rule = ('altitude codes (%s): AC13 in DF4 and DF20, AC12 in TC %s, each as update of an existing row and as first '
                'frame, option sets {none,-U,-R}, other payload bits random. Non-trivial = applied frame carrying an '
                'altitude code with M=0 (decided by the spec); distinct = distinct (line, slot)'
                % ('all 8192 / 4096' if tier == 'thorough' else 'stratified', tcs))
    vlib.nt_floor(rep, 1000)
    return rep


# ----------------------------------------------------------------------------------------- C07
def c07(tier):
    rep = Report('C07', tier)
    rng = random.Random(vlib.seed())
    vals = []
    # all 64 codes in each of the 8 positions, others fixed / random
    for pos in range(8):
        for code in range(64):
            base = callsign_codes('ABCD1234') if (code + pos) % 2 else [rng.getrandbits(6) for _ in range(8)]
            base[pos] = code
            vals.append(base)
    n_rand = 300 if tier == 'quick' else 20000
    for _ in range(n_rand):
        vals.append([rng.getrandbits(6) for _ in range(8)])
    groups = []
    groups += sweep_groups(lambda v, a, r: df17(r.getrandbits(3), a, me_ident(1 + r.getrandbits(2), r.getrandbits(3), v)),
                           vals, OPTSETS[:3], rng)
    # TC 1..4 x CA 0..7 explicitly
    tcca = [(tc, cat) for tc in range(1, 5) for cat in range(8)]
    groups += sweep_groups(lambda v, a, r: df17(5, a, me_ident(v[0], v[1], callsign_codes('WAKE%d%d' % v))), tcca, OPTSETS, rng)
    # BDS 2,0 via DF20/DF21 under each capability state: no CA, CA 5 via DF11, CA 5 via DF17, -R
    sub = vals[:512:4] + vals[512:512 + (100 if tier == 'quick' else 3000)]
    for setup in (lambda a: [df11(0, a)], lambda a: [df11(5, a)], lambda a: [df17(5, a, me_opstatus(2))]):
        for dfn in (20, 21):
            groups += sweep_groups(lambda v, a, r: long_(dfn, r.getrandbits(13), mb20(v), a, r.getrandbits(14)),
                                   sub, OPTSETS, rng, setup_fn=setup)
    conform(rep, 'C07', groups)
    rep.rule = ('callsign character codes: all 64 codes in each of 8 positions + %d random 48-bit strings, TC 1..4 x category '
                '0..7, as update and first frame, option sets {none,-U,-R,-U -R}; the same MB field as BDS 2,0 via DF20/DF21 '
                'after DF11 CA0 / DF11 CA5 / DF17 CA5. Non-trivial = applied identification squitter or gated BDS 2,0 reply '
                'on an existing row' % n_rand)
    vlib.nt_floor(rep, 1000)
    return rep


# ----------------------------------------------------------------------------------------- C09
def c09(tier):
    rep = Report('C09', tier)
    rng = random.Random(vlib.seed())
    vals = []
    edge = [0, 1, 2, 3, 511, 512, 1022, 1023]
    for vew in edge:
        for vns in edge:
            for dew in (0, 1):
                for dns in (0, 1):
                    vals.append((1 + (vew + vns) % 2, dew, vew, dns, vns, rng.getrandbits(1), rng.getrandbits(9)))
    # every value of each component once, every vertical-rate code with both signs
    for v in range(1024):
        vals.append((1, rng.getrandbits(1), v, rng.getrandbits(1), 1 + rng.getrandbits(9), rng.getrandbits(1), rng.getrandbits(9)))
        vals.append((2 if v % 8 == 0 else 1, rng.getrandbits(1), 1 + rng.getrandbits(9), rng.getrandbits(1), v, rng.getrandbits(1), rng.getrandbits(9)))
    for vr in range(512):
        for s in (0, 1):
            vals.append((1, 0, 1 + rng.getrandbits(9), 1, 1 + rng.getrandbits(9), s, vr))
    # exact diagonals / axes, near-integer-degree pairs
    for k in (2, 10, 100, 500, 1023):
        for dew in (0, 1):
            for dns in (0, 1):
                vals += [(1, dew, k, dns, k, 0, 5), (1, dew, 1, dns, k, 0, 5), (1, dew, k, dns, 1, 0, 5)]
    vals += [(1, 0, 958, 0, 599, 0, 9), (1, 1, 958, 1, 599, 0, 9), (1, 0, 599, 1, 958, 0, 9)]
    n_rand = 1500 if tier == 'quick' else 200000
    for _ in range(n_rand):
        vals.append((1 if rng.random() < 0.8 else 2, rng.getrandbits(1), rng.getrandbits(10), rng.getrandbits(1), rng.getrandbits(10),
                     rng.getrandbits(1), rng.getrandbits(9)))
    if tier == 'thorough':
        # one sign quadrant exhaustively on a coarse-to-fine lattice: all pairs with both components in a 256-grid,
        # plus all pairs for small magnitudes
        for vew in range(1, 1024, 4):
            for vns in range(1, 1024, 4):
                vals.append((1, 0, vew, 0, vns, 0, 1))
        for vew in range(0, 64):
            for vns in range(0, 64):
                for dew in (0, 1):
                    for dns in (0, 1):
                        vals.append((1, dew, vew, dns, vns, 1, 2))
    groups = sweep_groups(lambda v, a, r: df17(5, a, me_velocity(v[0], v[1], v[2], v[3], v[4], v[5], v[6], r.getrandbits(1), 0, 0, r.getrandbits(3))),
                          vals, OPTSETS[:3] if tier == 'quick' else OPTSETS, rng)
    conform(rep, 'C09', groups)
    rep.rule = ('TC19 subtype 1/2 frames: boundary product of component fields {0,1,2,3,511,512,1022,1023}^2 x signs, every value '
                'of each component, all 2x512 vertical-rate codes, diagonals/axes, near-integer-degree pairs, %d random%s; as update '
                'and first frame; option sets. Non-trivial = applied TC19 subtype 1/2 frame' %
                (n_rand, ', 256x256 lattice of one quadrant and all small-magnitude pairs' if tier == 'thorough' else ''))
    vlib.nt_floor(rep, 1000)
    return rep


CHECKS = {'C05': c05, 'C06': c06, 'C07': c07, 'C09': c09}
