"""Per-property checks.  Each builds input scenarios, runs them through the real code, has TLC
validate the recorded traces against the specification under that property's step predicates,
runs the bounded model of the property's group, and reports."""
import os, random, sys, json, time
import vlib
from vlib import Report, ToolError, log
from gen import *
import frames as F
import cli


def conform(rep, prop, groups, profiles=('release',), prefix='s', maxlen=3000, key_fn=None):
    shards = chunk(groups, maxlen)
    for prof in profiles:
        t0 = time.time()
        binary = vlib.build_harness(prof)
        t1 = time.time()
        traces = vlib.exec_shards(binary, shards, '%s-%s-' % (prefix, prof))
        t2 = time.time()
        if prop != 'C01':
            for tr in traces:
                with open(tr) as f:
                    for line in f:
                        if '"argerr":["' in line:
                            raise ToolError('scenario option set rejected by the argument parser: %s' % line[:300])
        res = vlib.validate(traces, prop)
        t3 = time.time()
        rep.add_validation(res, key_fn)
        log('conform %s/%s: %d shards, %d cmds; build %.1fs exec %.1fs tlc %.1fs collate %.1fs' %
            (prop, prof, len(shards), sum(len(s) for s in shards), t1 - t0, t2 - t1, t3 - t2, time.time() - t3))
    return len(shards)


# rows in different capability states before a DF20/21 reply arrives: CA 5 heard, nothing heard (row made by DF4), CA 0 heard
CAP_SETUPS = [lambda a: [df11(5, a)], lambda a: [short(4, enc_alt13(1000), a)], lambda a: [df11(0, a)], lambda a: [short(5, enc_squawk(1, 1, 1, 1), a)]]


def strat13(rng, n):
    """stratified 13-bit field values: all single bits, all pairs, boundaries, random"""
    vals = {0, 8191}
    for i in range(13):
        vals.add(1 << i)
        vals.add(8191 ^ (1 << i))
        for j in range(i):
            vals.add((1 << i) | (1 << j))
    while len(vals) < n:
        vals.add(rng.getrandbits(13))
    return sorted(vals)


# ----------------------------------------------------------------------------------------- C06
def c06(tier):
    rep = Report('C06', tier)
    thm(rep, 'sq', 'all 8192 identity fields: digits octal, X bit irrelevant, encoder inverts decoder')
    rng = random.Random(vlib.seed())
    codes = list(range(8192)) if tier == 'thorough' else strat13(rng, 700)
    rep.exhaustive = tier == 'thorough'
    groups = []
    groups += sweep_groups(lambda v, a, r: short(5, v, a, r.getrandbits(14)), codes, OPTSETS[:3], rng)
    groups += sweep_groups(lambda v, a, r: long_(21, v, bits_of(r.choice([0, (1 << 56) - 1, r.getrandbits(56), r.getrandbits(56), r.getrandbits(56)]), 56), a, r.getrandbits(14)),
                           codes if tier == 'thorough' else codes[::2], OPTSETS[:3], rng, setups=CAP_SETUPS)
    # the first frame ever heard from an aircraft, of every format that does not carry the identity: the row starts without a squawk
    for opts in OPTSETS:
        g = [reset(opts)]
        for k in range(3):
            for j, l in enumerate(other_format_frames(0x4b0a00 + 64 * k, rng)):
                fa = 0x4b0a00 + 64 * k + j + 1
                l2 = [x for x in other_format_frames(fa, rng)][j]
                if int(l2[:2], 16) >> 3 not in (5, 21):
                    g.append(run1(l2))
        groups.append(g)
    # every other format applied to a row that has a squawk: must not change it
    for opts in OPTSETS:
        for k in range(4 if tier == 'quick' else 40):
            a = 0x4b0000 + k
            g = [reset(opts), run1(df11(5, a)), run1(short(5, rng.getrandbits(13), a))]
            fr = other_format_frames(a, rng)
            rng.shuffle(fr)
            for j, l in enumerate(fr):
                if j % 3 == k % 3:
                    g.append(tick(rng.choice([31000, 45000, 59000])))      # the row has been silent for a while (but is not overdue)
                g.append(run1(l))
                g.append(run1(short(5, rng.getrandbits(13), a)) if rng.random() < 0.3 else run1(l))
            groups.append(g)
    for opts in OPTSETS:
        for dfx in (17, 18):
            a = 0x4b0400 + dfx
            g = [reset(opts), run1(df11(5, a)), run1(short(5, enc_squawk(1, 2, 0, 0), a))]
            for tc in range(32):
                for st_ in range(8):
                    g.append(run1(df17(5, a, pack([(tc, 5), (st_, 3), (rng.getrandbits(48), 48)]), df=dfx)))
            groups.append(g)
    # flight status / downlink request / utility fields of the replies that do NOT carry the identity: every FS value on DF4 / DF20,
    # DF0 / DF16 with every VS/RI pattern, on a row that holds a squawk
    for opts in OPTSETS:
        a = 0x4b0800 + len(groups) % 1000
        g = [reset(opts), run1(df11(5, a)), run1(short(5, enc_squawk(4, 5, 2, 1), a))]
        for fs in range(8):
            for dfx in (4, 20, 0, 16):
                data = pack([(dfx, 5), (fs, 3), (rng.getrandbits(5), 5), (rng.getrandbits(6), 6), (enc_alt13(rng.randrange(0, 40000, 25)), 13)])
                if dfx >= 16:
                    data += bits_of(rng.getrandbits(56), 56)
                g.append(run1(hexs(with_ap(data, a))))
        groups.append(g)
    # a downlink log that cannot be written changes nothing about the squawk
    for dlog in ('/dev/full', os.path.join(vlib.workdir(), 'no-such-dir', 'd.log')):
        a = 0x4b0f00 + len(groups) % 200
        g = [reset(['-D', dlog]), run1(df11(5, a))]
        for _ in range(8):
            g.append(run1(short(5, rng.getrandbits(13), a, rng.getrandbits(14))))
            g.append(run1(long_(21, rng.getrandbits(13), bits_of(rng.getrandbits(56), 56), a)))
        groups.append(g)
    # -f lists naming both carriers in any order: the squawk follows the last DF5 / DF21
    for fl in (['-f', '21', '-f', '5'], ['-f', '5', '-f', '21'], ['-f', '20', '-f', '21', '-f', '4', '-f', '5'], ['-f', '21', '-f', '17', '-f', '5', '-f', '11']):
        a = 0x4b0e00 + len(groups) % 200
        g = [reset(fl), run1(df11(5, a))]
        for _ in range(12):
            g.append(run1(short(5, rng.getrandbits(13), a, rng.getrandbits(14))))
            g.append(run1(long_(21, rng.getrandbits(13), bits_of(rng.getrandbits(56), 56), a)))
        groups.append(g)
    # squawks that return to earlier values, from both carriers, one line per run vs one run
    for k in range(6 if tier == 'quick' else 80):
        a = 0x4b0c00 + k
        codes_ = [rng.getrandbits(13) for _ in range(4)]
        carriers = [short(5, c, a, rng.getrandbits(14)) for c in codes_] + [long_(21, c, bits_of(rng.getrandbits(56), 56), a) for c in codes_]
        groups.append(seg_group('C06', [df11(5, a)] + returning(rng, carriers, 14), OPTSETS[k % 4]))
    conform(rep, 'C06', groups)
    rep.rule = ('identity field values (%s) x DF5/DF21 x {update of existing row, first frame} x option sets {none,-U,-R}, '
                'remaining bits random; plus every other format applied to a row holding a squawk (every FS value on DF4/DF20/DF0/DF16, every TC x '
                'subtype of DF17/DF18); squawk sequences returning to earlier values, one line per run vs one run. An event is '
                'non-trivial when the fed line is an applied DF5/DF21 frame (decided by the spec); distinct = distinct '
                '(line, slot)' % ('all 8192' if tier == 'thorough' else 'stratified: all 1- and 2-bit patterns + random'))
    vlib.nt_floor(rep, 1000)
    return rep


# ----------------------------------------------------------------------------------------- C05
def c05(tier):
    rep = Report('C05', tier)
    thm(rep, 'alt', 'all 8192 AC13 codes: zero / M / Q case analysis, range and granularity of values, AC12 = AC13 without M, Q=1 encoder inverts decoder')
    rng = random.Random(vlib.seed())
    if tier == 'thorough':
        c13 = list(range(8192))
        c12 = list(range(4096))
        tcs = list(range(9, 19))
    else:
        c13 = strat13(rng, 500)
        # all Q=1 codes with N < 48 (negative / zero boundary), Gillham 500-ft boundaries
        for n in range(48):
            c13.append(((n >> 5) << 7) | (((n >> 4) & 1) << 5) | 16 | (n & 15))
        c13 = sorted(set(c13))
        c12 = sorted(set([((c >> 7) << 6) | (c & 63) for c in c13]))
        tcs = [9, 11, 18]
    rep.exhaustive = tier == 'thorough'
    groups = []
    ysf, xsf = cpr_encode(51.47, -0.45, 0)
    surf = lambda a: df17(5, a, me_surface(7, 30, 1, 64, 0, ysf, xsf))
    # (rows made by a DF11, and rows whose latest extended squitter was a surface-position report)
    groups += sweep_groups(lambda v, a, r: short(4, v, a, r.getrandbits(14)), c13, OPTSETS[:3], rng,
                           setups=[lambda a: [df11(5, a)], lambda a: [df11(5, a), surf(a)], lambda a: [surf(a)]])
    groups += sweep_groups(lambda v, a, r: long_(20, v, bits_of(r.getrandbits(56), 56), a, r.getrandbits(14)),
                           c13 if tier == 'thorough' else c13[::2], OPTSETS[:3], rng, setups=CAP_SETUPS + [lambda a: [df11(5, a), surf(a)]])
    for tc in tcs:
        # (the CPR fields are random, or one / both of them zero: the altitude does not depend on them)
        groups += sweep_groups(lambda v, a, r: df17(5, a, me_airpos(tc, r.getrandbits(2), v, r.getrandbits(1),
                                                                    r.choice([0, r.getrandbits(17), r.getrandbits(17)]), r.choice([0, r.getrandbits(17), r.getrandbits(17)]))),
                               c12 if tier == 'thorough' else c12[::max(1, len(tcs) - 1)], OPTSETS[:3], rng)
    # a live row: position just decoded from an even/odd pair, then altitudes from all three carriers that keep returning to earlier
    # values (A B A C ...), each frame judged; and the same kind of sequence one line per run vs one run
    y0, x0 = cpr_encode(47.3, 8.5, 0)
    y1, x1 = cpr_encode(47.3005, 8.5004, 1)
    for k in range(8 if tier == 'quick' else 120):
        a = 0x3c9000 + k
        opts = OPTSETS[k % 4]
        alts = [rng.randrange(0, 45000, 25) for _ in range(4)]
        carriers = []
        for v in alts:
            carriers += [short(4, enc_alt13(v), a, rng.getrandbits(14)), long_(20, enc_alt13(v), bits_of(rng.getrandbits(56), 56), a),
                         df17(5, a, me_airpos(11, 0, enc_alt12(v), 0, y0, x0)), df17(5, a, me_airpos(11, 0, enc_alt12(v), 1, y1, x1))]
        seq = [carriers[2], carriers[3]] + returning(rng, carriers, 14)
        g = [reset(opts), run1(df11(5, a))] + [run1(l) for l in seq]
        groups.append(g)
        groups.append(seg_group('C05', [df11(5, a)] + seq, opts))
    conform(rep, 'C05', groups)
    rep.rule = ('altitude codes (%s): AC13 in DF4 and DF20, AC12 in TC %s, each as update of an existing row and as first '
                'frame, option sets {none,-U,-R}, other payload bits random; rows with a freshly decoded position receiving altitudes from all '
                'three carriers that return to earlier values (A B A C ...), per frame and as one line per run vs one run. Non-trivial = applied frame carrying an '
                'altitude code with M=0 (decided by the spec); distinct = distinct (line, slot)'
                % ('all 8192 / 4096' if tier == 'thorough' else 'stratified', tcs))
    vlib.nt_floor(rep, 1000)
    return rep


# ----------------------------------------------------------------------------------------- C07
def c07(tier):
    rep = Report('C07', tier)
    thm(rep, 'cs', 'all 64 character codes x 8 positions x TC 1..4 in encoded squitters: callsign text, omission of other codes, TC / category fields')
    rng = random.Random(vlib.seed())
    vals = []
    # all 64 codes in each of the 8 positions, others fixed / random
    for pos in range(8):
        for code in range(64):
            base = callsign_codes('ABCD1234') if (code + pos) % 2 else [rng.getrandbits(6) for _ in range(8)]
            base[pos] = code
            vals.append(base)
    n_rand = 300 if tier == 'quick' else 20000
    for _ in range(n_rand):
        vals.append([rng.getrandbits(6) for _ in range(8)])
    groups = []
    groups += sweep_groups(lambda v, a, r: df17(r.getrandbits(3), a, me_ident(1 + r.getrandbits(2), r.getrandbits(3), v)),
                           vals, OPTSETS[:3], rng)
    for code in (0, 32, 63, 27, 47, 58):
        vals.append([code] * 8)
    vals.append([0, 32, 63, 27, 47, 58, 31, 59])
    # TC 1..4 x CA 0..7 explicitly
    tcca = [(tc, cat) for tc in range(1, 5) for cat in range(8)]
    groups += sweep_groups(lambda v, a, r: df17(5, a, me_ident(v[0], v[1], callsign_codes('WAKE%d%d' % v))), tcca, OPTSETS, rng)
    # BDS 2,0 via DF20/DF21 under each capability state: no CA, CA 5 via DF11, CA 5 via DF17, -R
    sub = vals[:512:4] + vals[512:512 + (100 if tier == 'quick' else 3000)]
    for setup in (lambda a: [df11(0, a)], lambda a: [df11(5, a)], lambda a: [df17(5, a, me_opstatus(2))], lambda a: [df11(7, a)], lambda a: [df11(6, a)],
                  lambda a: [df11(5, a), df11(7, a)]):
        for dfn in (20, 21):
            groups += sweep_groups(lambda v, a, r: long_(dfn, r.getrandbits(13), mb20(v), a, r.getrandbits(14)),
                                   sub, OPTSETS, rng, setup_fn=setup)
    # a BDS 2,0 reply as the first frame ever heard, then the same line again (the creating frame may contribute the address only,
    # the repeat delivers the callsign), one line per run vs one run
    for k, opts in enumerate(OPTSETS):
        a = 0x3c7100 + k
        fr = long_(20, enc_alt13(24000), mb20(callsign_codes('FIRST20')), a)
        for seq in ([fr, fr], [fr, fr, fr], [df11(5, a), fr, fr]):
            groups.append(seg_group('C07', seq, opts))
    # the same callsign under changing type code / category, and blank identifications after a real one
    for opts in OPTSETS:
        a = 0x3c7000 + len(opts)
        g = [reset(opts), run1(df11(5, a))]
        for (tc_, ca_) in [(4, 3), (4, 0), (4, 5), (2, 5), (2, 0), (4, 3), (1, 1), (4, 7)]:
            g.append(run1(df17(5, a, me_ident(tc_, ca_, callsign_codes('SAMECS')))))
        g.append(run1(df17(5, a, me_ident(4, 5, [32] * 8))))
        g.append(run1(df17(5, a, me_ident(3, 2, callsign_codes('BACK1')))))
        g.append(run1(df17(5, a, me_ident(4, 1, [0] * 8))))
        groups.append(g)
    # BDS 2,0 after an identification squitter has recorded a category (and the other way round)
    sub2 = [callsign_codes(x) for x in ('KLM64X', 'A', 'ZZZZZZZZ', 'EIN5B')] + vals[:8]
    for setup in (lambda a: [df11(5, a), df17(5, a, me_ident(4, 3, callsign_codes('KLM1023')))],
                  lambda a: [df17(5, a, me_ident(2, 1, callsign_codes('GND1'))), df17(5, a, me_ident(2, 1, callsign_codes('GND1'))), df11(5, a)]):
        for dfn in (20, 21):
            groups += sweep_groups(lambda v, a, r: long_(dfn, r.getrandbits(13), mb20(v), a, r.getrandbits(14)), sub2, OPTSETS, rng, setup_fn=setup, per_group=4)
    conform(rep, 'C07', groups)
    rep.rule = ('callsign character codes: all 64 codes in each of 8 positions + %d random 48-bit strings, TC 1..4 x category '
                '0..7, as update and first frame, option sets {none,-U,-R,-U -R}; the same MB field as BDS 2,0 via DF20/DF21 '
                'after DF11 CA0 / DF11 CA5 / DF17 CA5. Non-trivial = applied identification squitter or gated BDS 2,0 reply '
                'on an existing row' % n_rand)
    vlib.nt_floor(rep, 1000)
    return rep


# ----------------------------------------------------------------------------------------- C09
def c09(tier):
    rep = Report('C09', tier)
    thm(rep, 'vel', 'velocity lattice: integer square root bracket, track in 0..359, opposite / mirrored / swapped component symmetries of floor(atan2)', stride=4 if tier == 'quick' else 1)
    rng = random.Random(vlib.seed())
    vals = []
    edge = [0, 1, 2, 3, 511, 512, 1022, 1023]
    for vew in edge:
        for vns in edge:
            for dew in (0, 1):
                for dns in (0, 1):
                    vals.append((1 + (vew + vns) % 2, dew, vew, dns, vns, rng.getrandbits(1), rng.getrandbits(9)))
    # every value of each component once, every vertical-rate code with both signs
    for v in range(1024):
        vals.append((1, rng.getrandbits(1), v, rng.getrandbits(1), 1 + rng.getrandbits(9), rng.getrandbits(1), rng.getrandbits(9)))
        vals.append((2 if v % 8 == 0 else 1, rng.getrandbits(1), 1 + rng.getrandbits(9), rng.getrandbits(1), v, rng.getrandbits(1), rng.getrandbits(9)))
    for vr in range(512):
        for s in (0, 1):
            vals.append((1, 0, 1 + rng.getrandbits(9), 1, 1 + rng.getrandbits(9), s, vr))
    # exact diagonals / axes, near-integer-degree pairs
    for k in (2, 10, 100, 500, 1023):
        for dew in (0, 1):
            for dns in (0, 1):
                vals += [(1, dew, k, dns, k, 0, 5), (1, dew, 1, dns, k, 0, 5), (1, dew, k, dns, 1, 0, 5)]
    vals += [(1, 0, 958, 0, 599, 0, 9), (1, 1, 958, 1, 599, 0, 9), (1, 0, 599, 1, 958, 0, 9)]
    near = json.load(open(os.path.join(os.path.dirname(os.path.abspath(__file__)), 'near_integer_pairs.json')))
    for j, (e_, n_) in enumerate(near if tier == 'thorough' else near[::2]):
        for dew, dns in ((0, 0), (1, 1), (0, 1), (1, 0)) if tier == 'thorough' else (((j // 2) % 2, j % 2), (1 - (j // 2) % 2, 1 - j % 2)):
            vals.append((1, dew, e_ + 1, dns, n_ + 1, 0, 3))
    n_rand = 1500 if tier == 'quick' else 200000
    for _ in range(n_rand):
        vals.append((1 if rng.random() < 0.8 else 2, rng.getrandbits(1), rng.getrandbits(10), rng.getrandbits(1), rng.getrandbits(10),
                     rng.getrandbits(1), rng.getrandbits(9)))
    if tier == 'thorough':
        # one sign quadrant exhaustively on a coarse-to-fine lattice: all pairs with both components in a 256-grid,
        # plus all pairs for small magnitudes
        for vew in range(1, 1024, 4):
            for vns in range(1, 1024, 4):
                vals.append((1, 0, vew, 0, vns, 0, 1))
        for vew in range(0, 64):
            for vns in range(0, 64):
                for dew in (0, 1):
                    for dns in (0, 1):
                        vals.append((1, dew, vew, dns, vns, 1, 2))
    # (the CA field of the squitter varies: it has nothing to do with the velocity)
    groups = sweep_groups(lambda v, a, r: df17(r.choice([5, 5, 0, 1, 2, 3, 4, 6, 7]), a, me_velocity(v[0], v[1], v[2], v[3], v[4], v[5], v[6], r.getrandbits(1), 0, 0, r.getrandbits(3))),
                          vals, OPTSETS[:3] if tier == 'quick' else OPTSETS, rng)
    # the same values with and without -U / -R, also when a later frame carries "no information"
    for h in range(8 if tier == 'quick' else 200):
        a = 0x4b6000 + h
        seq = []
        for _ in range(14):
            st_ = rng.choice([1, 1, 2])
            z = rng.random()
            vew = 0 if z < 0.15 else rng.randint(1, 1023)
            vns = 0 if 0.1 < z < 0.25 else rng.randint(1, 1023)
            vr = 0 if 0.2 < z < 0.4 else rng.randint(1, 511)
            seq.append(df17(rng.getrandbits(3), a, me_velocity(st_, rng.getrandbits(1), vew, rng.getrandbits(1), vns, rng.getrandbits(1), vr)))
        o1 = rng.choice([['-U'], ['-U', '-R'], ['-R']])
        g = [reset([], slot=0), reset(o1, slot=1)]
        tag = {'pair': 'c09u'}
        for l in seq:
            g += [run1(l, slot=0, tag=tag), run1(l, slot=1, tag=tag)]
        groups.append(g)
    # a row that already shows Comm-B values (BDS 5,0 track / ground speed, BDS 6,0 vertical rate) received moments ago: the velocity
    # squitter still decides ground speed, track and vertical rate
    for h in range(8 if tier == 'quick' else 120):
        a = 0x4b6800 + h
        opts = OPTSETS[h % 4]
        g = [reset(opts), run1(df11(5, a)), run1(long_(20, enc_alt13(33000), mb17(1, 1, 1, 1), a))]
        if (h // 2) % 2:
            # the aircraft was on the ground a moment ago: surface position reports (with their own movement / track) came first
            ys_, xs_ = cpr_encode(50.03, 8.57, 0)
            g += [run1(df17(5, a, me_surface(rng.randint(5, 8), rng.randint(1, 124), 1, rng.getrandbits(7), 0, ys_, xs_))) for _ in range(2)]
        for _ in range(4):
            gs = rng.randint(60, 250)
            g.append(run1(long_(rng.choice([20, 21]), enc_alt13(33000), mb50(rng.randint(-200, 200) or 1, rng.randrange(1, 2048), gs, rng.randint(-300, 300) or 1, max(1, min(250, gs + rng.randint(-40, 40)))), a)))
            if rng.random() < 0.5:
                g.append(tick(rng.choice([500, 5000, 9500, 10500])))
            g.append(run1(df17(5, a, me_velocity(rng.choice([1, 1, 2]), rng.getrandbits(1), rng.randint(1, 1023), rng.getrandbits(1), rng.randint(1, 1023), rng.getrandbits(1), rng.randint(1, 511)))))
            g.append(run1(long_(20, enc_alt13(33000), mb60(rng.randrange(1, 2048), rng.randint(1, 1023), rng.randint(1, 250), rng.randint(-187, 187) or 2, rng.randint(-187, 187) or -2), a)))
            g.append(run1(df17(5, a, me_velocity(1, rng.getrandbits(1), rng.randint(1, 1023), rng.getrandbits(1), rng.randint(1, 1023), rng.getrandbits(1), rng.randint(1, 511)))))
        groups.append(g)
    # straight after surface position reports (the aircraft has just left the ground): no Comm-B reply in between
    for k, opts in enumerate(OPTSETS * (1 if tier == 'quick' else 10)):
        a = 0x4b6c00 + k
        ys_, xs_ = cpr_encode(50.03, 8.57, 0)
        g = [reset(opts), run1(df11(5, a))]
        for _ in range(3):
            g += [run1(df17(5, a, me_surface(rng.randint(5, 8), rng.randint(1, 124), 1, rng.getrandbits(7), 0, ys_, xs_))) for _ in range(2)]
            g += [run1(df17(5, a, me_velocity(rng.choice([1, 1, 2]), rng.getrandbits(1), rng.randint(1, 1023), rng.getrandbits(1), rng.randint(1, 1023), rng.getrandbits(1), rng.randint(1, 511)))) for _ in range(2)]
        groups.append(g)
    conform(rep, 'C09', groups)
    rep.rule = ('TC19 subtype 1/2 frames: boundary product of component fields {0,1,2,3,511,512,1022,1023}^2 x signs, every value '
                'of each component, all 2x512 vertical-rate codes, diagonals/axes, near-integer-degree pairs, %d random%s; as update '
                'and first frame; option sets; also right after BDS 5,0 / 6,0 replies that set the same columns. Non-trivial = applied TC19 subtype 1/2 frame' %
                (n_rand, ', 256x256 lattice of one quadrant and all small-magnitude pairs' if tier == 'thorough' else ''))
    vlib.nt_floor(rep, 1000)
    return rep


CHECKS = {'C05': c05, 'C06': c06, 'C07': c07, 'C09': c09}


def sweep_tool(binary, sub, spec, name):
    """run `sqv icaosweep|burst|country`; returns trace path"""
    import subprocess
    wd = vlib.workdir()
    out = os.path.join(wd, name + '.trace.ndjson')
    args = [binary, sub]
    if spec is not None:
        sp = os.path.join(wd, name + '.spec.json')
        json.dump(spec, open(sp, 'w'))
        args.append(sp)
    args.append(out)
    if sub == 'burst':
        args.append(wd)
    p = subprocess.run(args, stdout=subprocess.DEVNULL, stderr=subprocess.PIPE, text=True, timeout=3600)
    if p.returncode != 0:
        raise ToolError('sqv %s failed: %s' % (sub, p.stderr[-2000:]))
    return out


def nibs(h):
    return [int(c, 16) for c in h]


def valid_squitters(rng, n):
    """n valid DF17/DF18/DF11 squitters of several type codes"""
    out = []
    y0, x0 = cpr_encode(48.1, 11.5, 0)
    mk = [
        lambda a: df17(5, a, me_airpos(11, 0, enc_alt12(36000), 0, y0, x0)),
        lambda a: df17(2, a, me_ident(4, 2, callsign_codes('DLH4AB')), df=18),
        lambda a: df11(5, a, 0),
        lambda a: df17(5, a, me_ident(4, 2, callsign_codes('DLH4AC'))),
        lambda a: df17(5, a, me_velocity(1, 1, 120, 0, 400, 1, 15)),
        lambda a: df11(5, a, 9),
        lambda a: df17(2, a, me_ident(2, 3, callsign_codes('TUG7')), df=18),
        lambda a: df17(5, a, me_opstatus(2)),
        lambda a: df17(0, a, me_surface(6, 30, 1, 90, 1, y0, x0)),
        lambda a: df11(7, a, 127),
        lambda a: df17(5, a, me_raw(29, rng.getrandbits(51))),
    ]
    for k in range(n):
        out.append(mk[k % len(mk)](0x3c6000 + rng.getrandbits(12)))
    return out


# ----------------------------------------------------------------------------------------- C02
DECOR = [b'*', b'@', b';', b' ', b'\t', b'\r', b'g', b'G', b'x', b':', b'-', b'\xc3\xa9', b'\xef\xbc\x91', b'\x00'] + \
        [chr(0x100 + b).encode() for b in b'09AFaf18Cc'] + [chr(0x400 + b).encode() for b in b'0Aa'] + \
        ['\u0661'.encode(), '\u06f5'.encode(), '\uff21'.encode(), '\u2160'.encode(), '\U0001d7d8'.encode()] + \
        [b'x', b'X', b'h', b'#', b'$', b'\\x', b'0x'[1:], b'&#x', b'U+'] + \
        [t.encode() for t in ('\ufb00', '\ufb01', '\ufb02', '\ufb03', '\ufb04', '\u1e9a', '\u00df', '\u0149', '\u0130', '\u01c5', '\u1f88', '\ufb05', '\u2126', '\u212a')]


def decorate(rng, digits, k):
    """insert k decoration tokens at random places, random letter case"""
    parts = [bytes([c]) for c in digits.encode()]
    parts = [p.lower() if rng.random() < 0.5 else p.upper() for p in parts]
    for _ in range(k):
        parts.insert(rng.randrange(len(parts) + 1), rng.choice(DECOR))
    return list(b''.join(parts))


def c02(tier):
    rep = Report('C02', tier)
    line_scs = line_model(rep, tier, emit=True)
    rng = random.Random(vlib.seed())
    a = 0x4840d6
    valid = [df17(5, a, me_ident(4, 1, callsign_codes('KLM1023'))), short(4, enc_alt13(30000), a), df11(5, a),
             long_(20, enc_alt13(30000), mb20(callsign_codes('KLM1023')), a), short(5, enc_squawk(1, 0, 0, 0), a)]
    lines = []
    # every DF value against both lengths, plain and with a 12-digit time stamp prefix
    for dfv in range(32):
        data56 = pack([(dfv, 5), (rng.getrandbits(3), 3), (a, 24)])
        data112 = data56 + bits_of(rng.getrandbits(56), 56)
        for data in (data56, data112):
            for fr in (hexs(with_pi(data)), hexs(with_ap(data, a))):
                lines.append(list(fr.encode()))
                lines.append(list(('%012X' % rng.getrandbits(48) + fr).encode()))
    # digit counts 0..64 built from valid frames (padded / truncated)
    counts = range(0, 65) if tier == 'thorough' else [0, 1, 12, 13, 14, 15, 25, 26, 27, 28, 29, 38, 39, 40, 41, 42, 52, 54, 56, 64]
    for n in counts:
        for v in valid:
            src = (v * 5)[:n]
            lines.append(list(src.encode()))
            tail = (('%064X' % rng.getrandbits(256)) + v)[-n:] if n else ''
            lines.append(list(tail.encode()))
    # decorated forms of valid and invalid lines
    nd = 400 if tier == 'quick' else 20000
    for _ in range(nd):
        v = rng.choice(valid)
        if rng.random() < 0.3:
            v = '%012X' % rng.getrandbits(48) + v
        if rng.random() < 0.25:
            v = v[:rng.randrange(len(v) + 1)] + rng.choice('0123456789abcdefABCDEF') * rng.randrange(1, 3) + v[rng.randrange(len(v)):]
        lines.append(decorate(rng, v, rng.randrange(0, 4)))
    # every decoration token at every position of two frames (a DF0 reply starting with the digit 0, an extended squitter): the digits
    # are what they were, whatever stands between them - in particular no token is taken for digits or makes digits disappear
    zero_first = short(0, enc_alt13(9000), 0x2E197B)
    for v in (valid[0], zero_first if zero_first[0] == '0' else valid[1]):
        for tok in DECOR:
            for pos in range(len(v) + 1):
                if tier == 'thorough' or (pos + len(tok)) % 3 == 0 or pos < 2:
                    lines.append(list(v[:pos].encode()) + list(tok) + list(v[pos:].encode()))
    # a hexadecimal prefix is not a decoration: '0x' + frame has one digit too many
    for v in valid:
        lines.append(list(('0x' + v).encode()))
        lines.append(list(('0X' + v + ';').encode()))
    # classic receiver formats
    lines.append(list(('*' + valid[0] + ';').encode()))
    lines.append(list(('@' + '%012X' % rng.getrandbits(48) + valid[0] + ';\r').encode()))
    lines.append(list(('  ' + valid[1].lower() + '  ').encode()))
    groups = []
    crafted = []
    for opts in ([], ['-U']):
        for i in range(0, len(lines), 50):
            part = lines[i:i + 50]
            g = [reset(opts)]
            for l in part:                      # empty table
                g.append(run1(l, direct=True))
                g.append(reset(opts))
            g.append(run1(df11(5, a)))          # table holding the aircraft
            for l in part:
                g.append(run1(l, direct=True))
            groups.append(g)
    alpha_l = scn.parse_literal_alphabet('line')
    trie = scn.trie_of(line_scs)
    for o in ([], ['-U']):
        groups += scn.groups_from_trie(trie, alpha_l, o, split_depth=1)
    rep.extra['model_transitions_replayed'] = 2 * scn.count_edges(trie)
    # digits far behind a complete record still count: record, padding without hex digits up to column N, more digits
    for v in valid:
        for N in (15, 20, 29, 31, 32, 33, 41, 48, 63, 64, 65, 80, 100, 127, 128, 129, 255, 256, 257, 512, 1024, 4096, 8192, 65536):
            pad = rng.choice([' ', '\t', ';', 'x', '-', '\r'])
            more = rng.choice(['a', '0', 'F', 'beef', '7' * 14])
            crafted.append(list((v + pad * max(0, N - len(v)) + more).encode()))
        crafted.append(list((v + ';      <- dropped by the feeder, bad checksum').encode()))
        crafted.append(list((v + ';' + ' ' * 60 + v).encode()))
    groups.append([reset([])] + [run1(l, direct=True) for l in crafted] + [run1(df11(5, a))] + [run1(l, direct=True) for l in crafted])
    # what a line does depends on its own digits only, not on the line before it: the same frame twice in a row (plain,
    # re-decorated, with an unusable line in between), one line per reader run and as a single run
    nseg2 = 0
    for k, opts in enumerate(OPTSETS):
        a2 = 0x484100 + k
        for fr in nine_frames(a2, rng) + [long_(20, enc_alt13(38000), mb20(callsign_codes('SEGTWO')), a2), long_(21, enc_squawk(2, 3, 4, 5), mb20(callsign_codes('SEGTWO')), a2)]:
            other = df11(5, a2 + 0x40)
            deco = list(('@%012X' % rng.getrandbits(48) + fr.lower() + ';\r').encode())
            for seq in ([fr, fr], [fr, deco], [fr, 'no frame here', fr], [fr, '', deco], [other, fr, fr], [fr, fr, fr], [df11(0, a2), fr, fr]):
                nseg2 += 1
                groups.append([reset(opts, slot=0), reset(opts, slot=1)] + [run1(l, slot=0) for l in seq] + [runn(seq, slot=1, tag={'pair': 'seg2'})])
    rep.extra['repeated_frame_sequences'] = nseg2
    # the last line of the input without a line end (also with a bare CR)
    for v in valid:
        for tail in ('', '\r', ';', ';\r'):
            for opts in ([], ['-U']):
                groups.append([reset(opts), run1(df11(5, a)), {'c': 'run', 'lines': [list(valid[2].encode()), list((v + tail).encode())], 'slot': 0, 'noeol': True},
                               reset(opts), {'c': 'run', 'lines': [list((v + tail).encode())], 'slot': 0, 'noeol': True, 'direct': True}])
    # lines that are not frames on a table holding a row that is overdue, as one reader run of 15..39 lines: a line that is not a frame
    # leaves the table untouched - it does not count towards the sweep either (round 13)
    for k, opts in enumerate([['-d', '1'], ['-d', '0', '-U'], ['-d', '60']]):
        nf = [[], list(b'no frame here'), list(valid[0][:27].encode()), list((valid[0] + '0').encode()), list(F.flip(valid[0], [40]).encode()),
              list(valid[1][:13].encode()), list(('%012X' % 5 + valid[1][:13]).encode()), [0xff, 0xfe], list(('8D' + valid[1][2:]).encode())]
        groups.append([reset(opts), run1(df17(5, 0x484200 + k, me_ident(4, 1, callsign_codes('OVERDUE')))), tick((int(opts[1]) + 1) * 1000),
                       runn([nf[i % len(nf)] for i in range(15 + 12 * k)], slot=0)])
    conform(rep, 'C02', groups, maxlen=2500)
    rep.rule = ('lines: every DF 0..31 as 14- and 28-digit frame (valid parity / address overlay) with and without 12-digit '
                'time stamp; digit counts %s cut from valid frames; %d randomly decorated / case-mixed / digit-inserted variants '
                '(decorations * @ ; blank tab CR g G x : - e-acute fullwidth-1 NUL); each on an empty table and on a table holding '
                'the aircraft, with and without -U, with the public get_message/get_icao called on the same line. Every event is '
                'judged (accept <=> oracle, reject => table untouched); distinct = distinct (line, context). Also: complete records '
                'followed by padding without digits up to columns 15..65536 and then more digits (must be refused); and %d sequences in which '
                'a frame of each format directly follows itself (plain, re-decorated, across an unusable line), fed one line per reader run '
                'and as one run under {none,-U,-R,-U -R}: the tables must agree (no state carried from line to line)'
                % ('0..64' if tier == 'thorough' else 'around 0/14/26/28/40/64', nd, nseg2))
    vlib.nt_floor(rep, 300)
    return rep


# ----------------------------------------------------------------------------------------- C03
def nine_frames(a, rng):
    """one frame of each of the nine formats for aircraft a, random payload"""
    r13 = lambda: rng.getrandbits(13)
    r14 = lambda: rng.getrandbits(14)
    mb = lambda: bits_of(rng.getrandbits(56), 56)
    return [short(0, r13(), a, r14()), short(4, r13(), a, r14()), short(5, r13(), a, r14()), df11(rng.getrandbits(3), a, rng.choice([0, 0, 5, 127])),
            long_(16, r13(), mb(), a, r14()), df17(rng.getrandbits(3), a, mb()), df17(rng.getrandbits(3), a, mb(), df=18),
            long_(20, r13(), mb(), a, r14()), long_(21, r13(), mb(), a, r14())]


def c03(tier):
    rep = Report('C03', tier)
    thm(rep, 'addr', 'Address(encode(format, address, payload)) = address for the nine formats x 32 addresses (incl. all single-bit ones) x 56 payload patterns; encoded frames pass the gate')
    rng = random.Random(vlib.seed())
    groups = []
    others = [0x100001, 0xFFFFFF, 0x4840d7]
    nrep = 12 if tier == 'quick' else 400
    for opts in OPTSETS:
        for k in range(nrep):
            g = [reset(opts)]
            for b in others:
                g.append(run1(df11(5, b)))
                g.append(run1(short(5, rng.getrandbits(13), b)))
            addrs = [rng.choice([1, 2, 0x800000, 0xFFFFFE, 0x4840d6, 0x4840d5]), rng.getrandbits(24) or 1]
            seq = []
            for a in addrs:
                seq += nine_frames(a, rng)
            seq += nine_frames(0, rng)           # address zero: dropped
            seq += nine_frames(rng.choice(others), rng)
            rng.shuffle(seq)
            for l in seq:
                # (letter case and receiver framing are decoration: the address is the same)
                g.append(run1(dialect(rng, l) if k % 3 == 1 else (l.lower() if k % 3 == 2 else l), direct=True))
            groups.append(g)
    # a large table: thousands of aircraft heard once each, in one run; everybody who was there before is still there (nothing is
    # overdue), only the new addresses are added
    nbig = 4500 if tier == 'quick' else 20000
    for opts in (([],) if tier == 'quick' else ([], ['-U'])):
        xs_ = [0x4b4001, 0x4b4002]
        g = [reset(opts + ['-d', '100000'])] + [run1(df11(5, x)) for x in xs_] + [run1(short(5, enc_squawk(1, 2, 3, 4), xs_[0]))]
        newcomers = rng.sample(range(0x500000, 0x5fffff), nbig)
        g.append(runn([df11(rng.getrandbits(3), b) for b in newcomers]))
        g.append(run1(df11(5, xs_[1])))
        groups.append(g)
    # payloads that NAME another aircraft of the table: the intruder address of an ACAS resolution advisory (BDS 3,0, TTI = 1, TID),
    # the address spelled in the MB / ME field of other formats.  The row that changes is still the sender's.
    for opts in OPTSETS:
        a_, b_, c_ = 0x4b2001, 0x4b2002, 0x4b2003
        g = [reset(opts)]
        for x in (a_, b_, c_):
            g += [run1(df11(5, x)), run1(short(5, rng.getrandbits(13), x)), run1(long_(20, enc_alt13(30000), mb17(1, 1, 1, 1), x))]
        for tid in (b_, c_, a_, 0x4b2004):
            for tti in (1, 2, 0):
                rest = (tti << 26) | (tid << 2)
                for ara, mte in ((1, 0), (0, 1), (0, 0)):
                    g.append(run1(long_(rng.choice([20, 21]), rng.getrandbits(13) | 16, mb30(ara, mte, rest=rest), a_)))
            g.append(run1(long_(20, enc_alt13(31000), pack([(0x20, 8), (tid, 24), (tid, 24)]), a_)))
            g.append(run1(long_(16, enc_alt13(31000), pack([(0x30, 8), (tid, 24), (tid, 24)]), a_)))
            g.append(run1(df17(5, a_, pack([(28, 5), (2, 3), (tid, 24), (tid, 24)]))))
            g.append(run1(df17(5, a_, pack([(29, 5), (1, 3), (tid, 24), (tid, 24)]), df=18)))
        groups.append(g)
    # single-bit and two-bit payloads (linearity of the CRC) for the AP formats
    g = [reset([])]
    a = 0x4b18fe
    for dfv in (0, 4, 5):
        for bit in range(27):
            g.append(run1(hexs(with_ap(pack([(dfv, 5), (1 << bit, 27)]), a)), direct=True))
    for dfv in (16, 20, 21):
        for bit in range(0, 83, 1 if tier == 'thorough' else 3):
            data = pack([(dfv, 5)]) + bits_of(1 << bit, 83)
            g.append(run1(hexs(with_ap(data, a)), direct=True))
    groups.append(g)
    # the same shuffled multi-aircraft stream one line per run and as a single run (state kept between lines of a run)
    for k in range(12 if tier == 'quick' else 300):
        opts = OPTSETS[k % 4]
        acs = [0x4b5000 + rng.getrandbits(10) for _ in range(3)]
        pool = []
        for a_ in acs:
            pool += other_format_frames(a_, rng) if k % 2 else [x for x in other_format_frames(a_, rng) if x[0] == '8']
        lines = [rng.choice(pool) for _ in range(rng.randrange(8, 30))]
        groups.append([reset(opts, slot=0), reset(opts, slot=1)] + [run1(l, slot=0) for l in lines] + [runn(lines, slot=1, tag={'pair': 'seg3'})])
    # a consumer of the public table holding read guards while frames arrive: every frame is still applied
    for k in range(4 if tier == 'quick' else 40):
        opts = OPTSETS[k % 4]
        g = [reset(opts)]
        for a_ in [0x4b7000 + 16 * k + j for j in range(6)]:
            for l in nine_frames(a_, rng)[:5]:
                c = run1(l, direct=True)
                c['contend'] = True
                g.append(c)
        groups.append(g)
    conform(rep, 'C03', groups, maxlen=2500)
    # exhaustive AP / AA sweep through the public get_icao, reduced to run-length form
    binary = vlib.build_harness('release')
    step = 1 if tier == 'thorough' else 61
    cases = []
    for i, l in enumerate(nine_frames(0x4ca86e, rng)):
        fld = 'aa' if l[0] in '58' and len(l) == 14 or l[:2] in ('8D', '88', '89', '8A', '8B', '8C', '8E', '8F', '90', '91', '92', '93', '94', '95', '96', '97') else 'ap'
        dfv = int(l[:2], 16) >> 3
        fld = 'aa' if dfv in (11, 17, 18) else 'ap'
        cases.append({'id': i, 'nib': nibs(l), 'field': fld, 'step': step})
    tr = sweep_tool(binary, 'icaosweep', {'cases': cases}, 'icaosweep')
    res = vlib.validate([tr], 'C03')
    rep.add_validation(res)
    rep.extra['address_sweep'] = {'formats': 9, 'values_per_format': (1 << 24) // step + 1, 'step': step,
                                  'transform': 'run-length encoding of get_icao(frame(v)) XOR v'}
    rep.exhaustive = tier == 'thorough'
    rep.rule = ('(i) per option set, %d tables holding 3 other aircraft, then shuffled frames of all nine formats (random payloads) '
                'for two aircraft, for address 0 and for one of the existing aircraft, one event each: changed rows and new keys must '
                'be within {Address(frame)}, address 0 dropped, get_icao = oracle; (ii) all 1-bit payloads of the AP formats; '
                '(iii) AP/AA field swept over %s values per format through get_icao, judged in run-length form. Non-trivial = applied '
                'frame of a nine-format DF; distinct by (line, slot)' % (nrep, 'all 2^24' if step == 1 else 'every 61st of 2^24'))
    vlib.nt_floor(rep, 500)
    return rep


# ----------------------------------------------------------------------------------------- C04
def c04(tier):
    rep = Report('C04', tier)
    mb = 8 if tier == 'quick' else 14
    thm(rep, 'crc112', 'every 1-/2-bit error and every burst of up to %d bits inside bits 6..112 has a non-zero syndrome for generator 0x1FFF409' % mb, maxburst=mb, workers=16)
    # DF11: the rule looks at 17 of the 24 syndrome bits, so it is no cyclic code of its own; TLC finds bursts of 13 bits inside bits
    # 6..49 whose syndrome has zero upper 17 bits (e.g. start 14, pattern 4401). Up to 12 bits every burst is visible.
    mb56 = min(mb, 12)
    thm(rep, 'crc56', 'DF11: every 1-/2-bit error and burst of up to %d bits confined to bits 6..49 is visible in the upper 17 syndrome bits '
                      '(bursts of 13 bits that the DF11 rule cannot see exist)' % mb56, maxburst=mb56)
    rng = random.Random(vlib.seed())
    sq = valid_squitters(rng, 3 if tier == 'quick' else 10)
    # ... and squitters whose parity field has leading zero digits (a comparison that drops leading zeros would not look at them)
    for want in ('0', '00'):
        for _ in range(20000):
            fr_ = df17(5, 0x3c6000 + rng.getrandbits(12), me_ident(4, 2, [rng.getrandbits(6) for _ in range(8)]), df=rng.choice([17, 18]))
            if fr_[22:].startswith(want):
                sq.append(fr_)
                break
    groups = []
    for fr in sq:
        nb = len(fr) * 4
        singles = [[p] for p in range(6, nb + 1)]
        pairs = [[p, q] for p in range(6, nb + 1) for q in range(p + 1, nb + 1)]
        if tier == 'quick':
            pairs = rng.sample(pairs, 700)
        heavy = [sorted(rng.sample(range(6, nb + 1), rng.randrange(3, 12))) for _ in range(100 if tier == 'quick' else 1500)]
        # structured corruptions: parity field cleared / set / taken from another frame, payload cleared, with extra data errors
        bits = F.unhex(fr)
        pi = list(range(nb - 23, nb + 1))
        structured = [[p for p in pi if bits[p - 1] == 1], [p for p in pi if bits[p - 1] == 0]]
        other = F.unhex(sq[(sq.index(fr) + 1) % len(sq)])
        if len(other) == len(bits):
            structured.append([p for p in pi if bits[p - 1] != other[p - 1]])
            structured.append([p for p in range(9, nb + 1) if bits[p - 1] != other[p - 1]][:-1] or [9])
        structured.append([p for p in range(33, nb - 23) if bits[p - 1] == 1])
        for base_ in list(structured):
            for extra in range(3):
                structured.append(sorted(set(base_) ^ set(rng.sample(range(6, nb - 24), rng.randrange(1, 4)))))
        structured = [x for x in structured if x]
        pats = singles + pairs + heavy + structured
        a = int(fr[2:8], 16)
        for ctx in (0, 1):
            for i in range(0, len(pats), 300):
                # (options that look at the frame before it is applied: message log of its own / another format, filter, counters)
                g = [reset((['-U'] if (i // 300) % 2 else []) + [[], ['-M', '17', '-M', '18', '-M', '11'], ['-f', '17', '-f', '18', '-f', '11'], ['-M', '4'], ['-c'],
                                                                 ['-f', '17', '-f', '18', '-f', '11', '-c']][(i // 300 + 2 * sq.index(fr) + 3 * ctx) % 6])]
                if ctx:
                    g.append(run1(fr))                          # the valid squitter itself: applied
                    g.append(run1(short(5, enc_squawk(1, 2, 3, 4), a)))
                for p in pats[i:i + 300]:
                    g.append(run1(F.flip(fr, p), direct=True))
                    if not ctx:
                        g.append(reset([]))
                groups.append(g)
    # a corrupted copy arriving right after the original inside the same reader run (state kept across lines):
    # [F, F^e, G] in one run must leave the table that [F, G] leaves
    for fr in sq:
        nb = len(fr) * 4
        a = int(fr[2:8], 16)
        g_other = short(5, enc_squawk(4, 4, 4, 4), a)
        pats = [[p] for p in range(6, nb + 1)] + [sorted(rng.sample(range(6, nb + 1), 2)) for _ in range(60 if tier == 'quick' else 600)]
        for k, p in enumerate(pats):
            opts = ['-U'] if k % 2 else []
            tag = {'pair': 'c04s'}
            groups.append([reset(opts, slot=0), reset(opts, slot=1),
                           runn([fr, F.flip(fr, p), g_other], slot=0, tag=tag), runn([fr, g_other], slot=1, tag=tag)])
    # the record shape must not matter: corrupted squitters inside the usual receiver framings (time-tagged @...;  *...;  lower case,
    # blanks, CR) are refused exactly like the bare digits
    for fr in sq:
        nb = len(fr) * 4
        a = int(fr[2:8], 16)
        shapes = [lambda x: '@%012X%s;' % (rng.getrandbits(48), x), lambda x: '*%s;' % x, lambda x: x.lower(), lambda x: '@%012x%s;\r' % (rng.getrandbits(48), x.lower()),
                  lambda x: '  %s  ' % x, lambda x: '%012X%s' % (rng.getrandbits(48), x)]
        pats = [[p] for p in range(6, nb + 1, 1 if tier == 'thorough' else 5)] + [sorted(rng.sample(range(6, nb + 1), rng.randrange(2, 5))) for _ in range(20)]
        for ctx in (0, 1):
            g = [reset([])]
            if ctx:
                g += [run1(fr), run1(short(5, enc_squawk(1, 2, 3, 4), a))]
            for k, p in enumerate(pats):
                g.append(run1(shapes[k % len(shapes)](F.flip(fr, p)), direct=True))
                if not ctx:
                    g.append(reset([]))
            groups.append(g)
    # corrupted squitters flowing while a row is overdue for the sweep: a refused frame must not move anything (not even the sweep)
    for k, fr in enumerate(sq):
        nb = len(fr) * 4
        a_old = 0x3c7000 + k
        for opts in ([], ['-U']):
            bad = [F.flip(fr, sorted(rng.sample(range(6, nb + 1), rng.randrange(1, 3)))) for _ in range(14)]
            groups.append([reset(['-d', '1'] + opts), run1(df11(5, a_old)), tick(2500), runn(bad), runn(bad[:3])])
    conform(rep, 'C04', groups, maxlen=2500)
    # all burst errors up to 12 (quick) / 24 (thorough) bits through the public get_message
    binary = vlib.build_harness('release')
    # a 24-bit burst sweep costs 7*10^8 get_message calls (about an hour of CPU) per long squitter: the thorough tier sweeps
    # bursts up to 22 bits for the first two squitters and up to 16 bits for the others; by the algebra noted in ModeS.tla
    # (generator of degree 24 with constant term 1) the length does not matter for a correct CRC
    maxlen = 12 if tier == 'quick' else 22
    cases = [{'id': i, 'nib': nibs(fr), 'maxlen': maxlen if (tier == 'quick' or i < 2) else 16, 'lo': 6, 'hi': len(fr) * 4} for i, fr in enumerate(sq)]
    tr = sweep_tool(binary, 'burst', {'cases': cases}, 'burst')
    res = vlib.validate([tr], 'C04')
    rep.add_validation(res)
    tried = sum(e['tried_k'] for e in vlib.read_ndjson(tr))
    rep.extra['burst_sweep'] = {'squitters': len(sq), 'max_burst_len': maxlen, 'variants_tried_thousands': tried}
    rep.exhaustive = tier == 'thorough'
    rep.rule = ('%d valid squitters (DF17 of several type codes, DF18, DF11 with II=0 and II!=0) x all 1-bit errors, %s 2-bit errors and '
                'random heavier patterns confined to bits 6..end, on an empty table and on a table holding the aircraft, one event each '
                '(table must stay untouched when the oracle says parity fails); all burst patterns up to %d bits (thorough: 22 for two squitters, 16 for the rest) via get_message in '
                'reduced form; corrupted squitters inside receiver framings (@time-tag;  *;  lower case, blanks, CR); runs of corrupted squitters while '
                'a row is overdue for the sweep (nothing may move). Non-trivial = corrupted frame whose syndrome the oracle finds non-zero (DF11: upper 17 bits)'
                % (len(sq), 'all' if tier == 'thorough' else '700 sampled', maxlen))
    vlib.nt_floor(rep, 1000)
    return rep


CHECKS.update({'C02': c02, 'C03': c03, 'C04': c04})


# ----------------------------------------------------------------------------------------- C01
def hostile_lines(rng, tier):
    """one representative (random fill) per input class"""
    a = 0x484f2d
    L = []
    hexd = lambda n: ''.join(rng.choice('0123456789ABCDEFabcdef') for _ in range(n))
    for n in [0, 1, 13, 14, 15, 25, 26, 27, 28, 29, 39, 40, 41, 64]:
        L.append(list(hexd(n).encode()))
    L.append(list(hexd(70000).encode()))
    # every DF claim against every accepted digit count
    for dfv in range(32):
        for n in (14, 28, 26, 40):
            body = '%02X' % ((dfv << 3) | rng.getrandbits(3)) + hexd((n if n in (14, 28) else n - 12) - 2)
            L.append(list(((hexd(12) if n in (26, 40) else '') + body).encode()))
    # boundary values of arithmetic fields in decodable formats (valid parity so that they get through)
    ac13 = [0, 16, 16 | 7, enc_alt13(-25), enc_alt13(0), 0x1FBF, 0x1FFF, 0x100A, 0x0008, 0x0040 | 16, 0x0040]
    for c in ac13:
        L.append(list(short(4, c, a, rng.getrandbits(14)).encode()))
        L.append(list(short(0, c, a, rng.getrandbits(14)).encode()))
        L.append(list(long_(20, c, bits_of(rng.getrandbits(56), 56), a).encode()))
        L.append(list(long_(16, c, bits_of(rng.getrandbits(56), 56), a).encode()))
        c12 = ((c >> 7) << 6) | (c & 63)
        for tc in (9, 18):
            L.append(list(df17(5, a, me_airpos(tc, 0, c12, rng.getrandbits(1), rng.choice([0, 131071, 5]), rng.choice([0, 131071, 7]))).encode()))
    for c in (0, 8191, 0x0040):
        L.append(list(short(5, c, a).encode()))
        L.append(list(long_(21, c, bits_of(0, 56), a).encode()))
    for tc in range(32):
        for st in range(8):
            rest = rng.choice([0, (1 << 48) - 1, rng.getrandbits(48)])
            L.append(list(df17(rng.getrandbits(3), a, pack([(tc, 5), (st, 3), (rest, 48)])).encode()))
            if tier == 'thorough' or st in (0, 7):
                L.append(list(df17(rng.getrandbits(3), a, pack([(tc, 5), (st, 3), (rest, 48)]), df=18).encode()))
    for vew in (0, 1, 1023):
        for vns in (0, 1, 1023):
            for vr in (0, 1, 511):
                for sgn in (0, 1):
                    for st in (1, 2, 3, 4):
                        L.append(list(df17(5, a, me_velocity(st, sgn, vew, sgn, vns, sgn, vr, dif=rng.choice([0, 1, 127]), sdif=sgn)).encode()))
    mbs = [0, (1 << 56) - 1, 0x10000000000000, 0x20FFFFFFFFFFFF, 0x30000000000000, 0x30FFFFFFFFFFFF]
    for m in mbs:
        for dfv in (20, 21, 16):
            L.append(list(long_(dfv, rng.getrandbits(13), bits_of(m, 56), a).encode()))
    for mb in (mb17(1, 1, 1, 1), mb40(1, 1, 1), mb40(4095, 4095, 4095), mb50(-512, 2047, 1023, -512, 1023), mb50(511, 0, 1, 511, 1),
               mb60(2047, 1023, 1023, -512, -512), mb60(1, 1, 1, 1, 1)):
        for dfv in (20, 21):
            L.append(list(long_(dfv, rng.getrandbits(13), mb, a).encode()))
    # byte classes
    good = df17(5, a, me_ident(4, 1, callsign_codes('HOSTILE')))
    L += [list(b'ghijklmnopqrstuvwxyz!"#$%&()'), [0] * 30, list(good.encode()) + [0], [13], list(good.encode()) + [13],
          list(range(0x80, 0x100)), [0xC3], [0xE2, 0x82], [0xF0, 0x9F, 0x98], list(good[:14].encode()) + [0xFF] + list(good[14:].encode()),
          [0xC3, 0xA9] * 20, list('８Ｄ４０６２１Ｄ５８Ｃ３８２Ｄ６９０Ｃ８ＡＣ２８６３Ａ７'.encode()), [0xEF, 0xBB, 0xBF] + list(good.encode())]
    # a byte that is not ASCII (invalid UTF-8, two- and three-byte characters) inserted at, and written over, every offset of the
    # usual record shapes: whatever is done by position in the line must survive it
    for base in ('@%012X%s;' % (rng.getrandbits(48), good), '*%s;' % good, good, '@%012X%s;' % (rng.getrandbits(48), short(4, enc_alt13(3000), a))):
        bb = list(base.encode())
        for off in range(len(bb) + 1):
            ins = [[0xFF], [0xC3, 0xA9], [0xE2, 0x82, 0xAC], [0x80]][off % 4]
            L.append(bb[:off] + ins + bb[off:])
            if off < len(bb):
                L.append(bb[:off] + ins + bb[off + 1:])
    n_rand = 100 if tier == 'quick' else 20000
    for _ in range(n_rand):
        k = rng.random()
        if k < 0.3:
            L.append([rng.getrandbits(8) for _ in range(rng.randrange(0, 60))])
        elif k < 0.6:
            L.append(list(hexd(rng.choice([14, 28, 26, 40])).encode()))
        else:
            fr = rng.choice(other_format_frames(rng.getrandbits(24) | 1, rng))
            L.append(list(F.flip(fr, [rng.randrange(1, len(fr) * 4 + 1) for _ in range(rng.randrange(1, 4))]).encode()))
    return [[b for b in l if b != 10] for l in L]      # one line each: no LF inside


def c01_optsets(tier):
    base = []
    for U in ([], ['-U']):
        for R in ([], ['-R']):
            for f in ([], ['-f', '17'], ['-f', '4', '-f', '5', '-f', '20']):
                base.append(U + R + f)
    disp = [['-c'], ['-i', 'Q'], ['-i', ''], ['-i', 'zz'], ['-i', 'aAews'], ['-o', ''], ['-o', 'zz'], ['-o', 'sAaVvNSWEdDcC'],
            ['-d', '0'], ['-d=-1'], ['-d', '1'], ['-d', '1000000000'], ['-d=-9223372036854775807'], ['-d', '9223372036854775807'],
            ['-u', '0'], ['-u=-1'], ['-u', '1'], ['-u', '1000000000'], ['-u', '9000000000000000'], ['-u=-9223372036854775807'],
            ['-u', '9223372036854775807'], ['-f', '99'], ['-f', '0', '-f', '31'], ['-c', '-f', '11'], ['-M', '17'], ['-O', 'x,y'], ['-O', '1e400, 5'],
            # observers that parse as floats but are not finite, with the orderings that use the distance / the coordinates
            ['-O', 'nan,nan', '-o', 'd'], ['-O', 'inf,0', '-o', 'D'], ['-O', '0,1e999', '-o', 'dD'], ['-O', 'NaN, -inf', '-o', 'sdNSWE'],
            ['-O', '91,181', '-o', 'dD'], ['--observer-coord=-1e308,1e308', '-o', 'Dd'], ['-f', '32'], ['-f', '36', '-f', '1073741860'], ['-c', '-f', '49']]
    return base, disp


def c01(tier):
    rep = Report('C01', tier)
    line_model(rep, tier)
    rng = random.Random(vlib.seed())
    L = hostile_lines(rng, tier)
    base, disp = c01_optsets(tier)
    sent_n = [0]

    def sentinel():
        sent_n[0] += 1
        return df17(5, 0x700000 + sent_n[0] % 0xFFFF, me_ident(4, 1, callsign_codes('SENT%04d' % (sent_n[0] % 10000))))

    groups = []
    # (a) in-process: hostile line, the same line again (update path if it was accepted), then a sentinel
    optsets = [QUIET_OFF(o) for o in base]
    for k, opts in enumerate(base):
        sub = L if (tier == 'thorough' or k == 0) else L[k % 4::4]
        for i in range(0, len(sub), 40):
            g = []
            for l in sub[i:i + 40]:
                g.append(reset(opts))
                g.append(runn([l, l, list(sentinel().encode())]))
            groups.append(g)
    # display / numeric option values: a short mixed stream each
    mixed = [list(x.encode()) for x in other_format_frames(0x4d2023, rng)]
    # two aircraft, one of them with a position fix (so that distance and coordinate orderings have something to compare)
    posmix = [list(x.encode()) for x in (df17(5, 0x4d2024, me_ident(4, 1, callsign_codes('NOFIX'))),
                                         df17(5, 0x4d2025, me_airpos(11, 0, enc_alt12(12000), 0, *cpr_encode(52.25, 3.92, 0))),
                                         df17(5, 0x4d2025, me_airpos(11, 0, enc_alt12(12000), 1, *cpr_encode(52.25, 3.92, 1))),
                                         df17(5, 0x4d2026, me_airpos(11, 0, enc_alt12(9000), 1, *cpr_encode(-33.9, -151.2, 1))),
                                         df17(5, 0x4d2026, me_airpos(11, 0, enc_alt12(9000), 0, *cpr_encode(-33.9, -151.2, 0))),
                                         df17(5, 0x4d2024, me_ident(4, 1, callsign_codes('NOFIX'))))]
    mixed = mixed + posmix
    # every DF value against every accepted digit count (what the counters, the filter and the per-format dispatch see)
    dfclaims = L[15:15 + 128]
    for d in disp:
        # the display runs inside the reader thread: refresh after every frame when an ordering is given
        g = [{'c': 'reset', 'opts': d + (['--update=-1'] if '-o' in d and not any(x.startswith('-u') for x in d) else []), 'slot': 0}]
        g.append(runn(mixed + [L[15]] + [list(sentinel().encode())]))
        for l in rng.sample(L, 12):
            g.append(runn([l, list(sentinel().encode())]))
        if '-c' in d or '-f' in d or '-M' in d:
            for l in dfclaims:
                g.append(runn([l, list(sentinel().encode())]))
        groups.append(g)
    # stateful hostile sequences: position pairs (airborne and surface) at extreme latitudes, both orders, zero fields
    aa = 0x4d3000
    for lat in (-89.99, -88.0, -87.0, -86.6, -85.8, 0.0, 85.8, 86.6, 87.0, 88.0, 89.99):
        for lon in (-180.0, -0.0001, 179.9999):
            for surface in (False, True):
                aa += 1
                fr = {}
                for odd in (0, 1):
                    y, x = cpr_encode(lat, lon, odd)
                    fr[odd] = df17(5, aa, me_surface(7, 10, 1, 5, odd, y or 1, x or 1)) if surface else \
                        df17(5, aa, me_airpos(11, 0, enc_alt12(1000), odd, y or 1, x or 1))
                for order in ((0, 1), (1, 0)):
                    for opts in ([], ['-U']):
                        groups.append([reset(opts), runn([fr[order[0]], fr[order[1]], fr[order[0]], list(sentinel().encode())])])
    # random short histories of boundary-valued frames of ONE aircraft (arithmetic across frames), and sweeps with
    # rows that are already stale (-d 0 / 1) inside one run
    dec = [l for l in L if 14 <= len(l) <= 40 and all(c < 128 for c in l)]
    for h_ in range(150 if tier == 'quick' else 3000):
        seq = [rng.choice(dec) for _ in range(rng.randrange(3, 9))]
        groups.append([reset(rng.choice([[], ['-U'], ['-R'], ['-U', '-R']])), runn(seq + [list(sentinel().encode())])])
    for dval in ('0', '1'):
        for opts in ([], ['-U']):
            seq = [list(x.encode()) for x in other_format_frames(0x4d4001, rng)[:13]] + [list(x.encode()) for x in other_format_frames(0x4d4002, rng)[:13]]
            groups.append([reset(opts + ['-d', dval]), runn(seq + [list(sentinel().encode())])])
    for k in range(10, 19):
        for o in ('-d', '-u'):
            for sgn in ('', '-'):
                v = sgn + str(10 ** k + 12345)
                g = [{'c': 'reset', 'opts': ['-i', 'Q', '%s=%s' % (o, v)], 'slot': 0}]
                g.append(runn(mixed + mixed[:5] + [list(sentinel().encode())]))
                groups.append(g)
    conform(rep, 'C01', groups, profiles=('checked', 'release'), maxlen=1500)
    # whole recordings as single reader runs in both profiles (thorough)
    if tier == 'thorough':
        g2 = []
        for name in ('squitters.txt', 'sbs2.txt', 'raw1.txt', 'raw2.txt', 'df0-df16.txt', 'df24.txt', 'sbs1.txt'):
            try:
                lines = recorded_lines(name, 12000)
            except OSError:
                continue
            for opts in (['-d', '100000'], ['-U', '-R', '-d', '100000'], ['-c', '-f', '17', '-d', '100000']):
                for i in range(0, len(lines), 3000):
                    g2.append([reset(opts), runn(lines[i:i + 3000])])
        conform(rep, 'C01', g2, profiles=('checked', 'release'), prefix='rec', maxlen=4)
    # (b) the real CLI binaries on files of hostile lines each followed by a sentinel
    events = []
    for prof in ('dev', 'release'):
        binary = vlib.build_cli(prof)
        per = 60
        sub = L if tier == 'thorough' else L[::3]
        jobs = []
        for k, opts in enumerate(base + disp[:8] + disp[8:] if tier == 'thorough' else base[:4] + disp):
            part = sub[(k * per) % max(1, len(sub) - per):][:per] if len(sub) > per else sub
            lines = list(posmix)
            if '-c' in opts or '-f' in opts or '-M' in opts:
                part = dfclaims + part
            for l in part:
                if len(l) > 5000:
                    continue
                lines.append(l)
                lines.append(list(sentinel().encode()))
            jobs.append((opts, lines))
        for opts, lines in jobs:
            o = list(opts)
            quiet = 'Q' in ''.join(o[i + 1] for i in range(len(o) - 1) if o[i] == '-i')
            has_u = any(x.startswith('-u') for x in o)
            if not has_u:
                o += ['--update=-1']
            r = cli.run_cli(binary, o, data=b''.join(bytes(l) + b'\n' for l in lines), timeout=120)
            snaps = [s for s in cli.snapshots(r['out']) if 'rows' in s]
            last = snaps[-1] if snaps else None
            f = [int(o[i + 1]) for i in range(len(o) - 1) if o[i] == '-f']
            dval = 60
            for i, x in enumerate(o):
                if x == '-d':
                    dval = int(o[i + 1])
                elif x.startswith('-d='):
                    dval = int(x[3:])
            events.append({'e': 'cli', 'i': len(events) + 1, 'opts': o, 'profile': prof, 'quiet': quiet,
                           'args': {'f': [f] if f else [], 'd': max(-2**31 + 1, min(2**31 - 1, dval)), 'u': -1 if not has_u else 3},
                           'lines': lines, 'code': r['code'], 'timeout': r['code'] == -999, 'nsnaps': len(snaps),
                           'stderr': r['err'][-300:].decode('utf-8', 'replace'),
                           'last': [] if last is None else [{'rows': [cli.cps(x) for x in last['rows']]}]})
    # sources that open but cannot be read (a directory: every read fails), an empty file, a file without a single line end
    for prof in ('dev', 'release'):
        binary = vlib.build_cli(prof)
        for src, data in ((vlib.SPEC, None), (None, b''), (None, b'8D4840D6202CC371C32CE0576098'), ('/dev/null', None)):
            r = cli.run_cli(binary, ['--update=-1'], data=data, source=src, timeout=20)
            events.append({'e': 'cli', 'i': len(events) + 1, 'opts': ['--update=-1', '-s', str(src)], 'profile': prof, 'quiet': True,
                           'args': {'f': [], 'd': 60, 'u': -1}, 'lines': [], 'code': r['code'], 'timeout': r['code'] == -999, 'nsnaps': 0,
                           'stderr': r['err'][-300:].decode('utf-8', 'replace'), 'last': []})
    wd = vlib.workdir()
    tr = os.path.join(wd, 'cli.trace.ndjson')
    vlib.write_ndjson(tr, events)
    rep.add_validation(vlib.validate([tr], 'C01'))
    rep.extra['cli_runs'] = len(events)
    rep.rule = ('input classes: digit counts {0,1,13,14,15,25..29,39,40,41,64,70000}; every DF 0..31 against 14/28/26/40 digits; '
                'boundary values of every arithmetic field (altitude codes incl. N<40 and Gillham, identity, TC 0..31 x subtype 0..7, '
                'velocity fields 0/1/1023, rate 0/1/511 both signs, CPR 0/131071, MB all-zero/all-one/register boundaries); byte classes '
                '(non-hex, NUL, CR, 0x80-0xFF, truncated UTF-8, fullwidth digits, BOM); %d random lines. In-process: [line, line, sentinel] '
                'through the real reader thread in the checked (overflow checks on) and release-like profiles under -U x -R x -f product '
                'and %d display/numeric option sets; CLI: dev and release binaries on files of line+sentinel pairs. Judged: thread joined '
                'without panic/error, exit status 0, sentinel aircraft present. Every event non-trivial; distinct by (lines, slot)'
                % (100 if tier == 'quick' else 20000, len(disp)))
    vlib.nt_floor(rep, 500)
    return rep


def QUIET_OFF(o):
    return o


CHECKS['C01'] = c01


# ----------------------------------------------------------------------------------------- C10
def commb_values(rng, tier):
    """MB fields generated from physical values over their ranges, boundaries of every plausibility limit,
    single status bit cleared, single reserved bit set, random"""
    V = []
    n = 6 if tier == 'quick' else 120
    for _ in range(n):
        V.append(mb50(rng.randint(-284, 284), rng.randrange(2048), rng.randint(50, 300), rng.randint(-511, 511) or 3, rng.randint(50, 250)))
        V.append(mb60(rng.randrange(1, 2048), rng.randint(1, 1023), rng.randint(1, 250), rng.randint(-187, 187) or 2, rng.randint(-187, 187) or -2))
        V.append(mb40(rng.randint(1, 4095), rng.randint(1, 4095), rng.randint(1, 4095), st48=rng.getrandbits(1), st54=rng.getrandbits(1),
                      modes=rng.getrandbits(3), src=rng.getrandbits(2)))
    # plausible in the sense of C10 (gs/tas close): must decode
    for _ in range(n):
        gs = rng.randint(60, 250)
        V.append(mb50(rng.randint(-280, 280) or 1, rng.randrange(1, 2048), gs, rng.randint(-500, 500) or 1, max(1, min(250, gs + rng.randint(-90, 90)))))
    # both turn / climb directions explicitly
    for tar in (-200, -1, 1, 200):
        for roll in (-200, -1, 1, 200):
            V.append(mb50(roll, 700, 220, tar, 210))
    for br in (-150, -1, 1, 150):
        V.append(mb60(600, 280, 195, br, br))
    # boundaries of every plausibility limit
    for roll in (-285, -284, 284, 285):
        V.append(mb50(roll, 100, 200, 4, 190))
    for gs in (300, 301):
        V.append(mb50(10, 100, gs, 4, 250))
    for tas in (250, 251):
        V.append(mb50(10, 100, 200, 4, tas))
    V += [mb50(10, 100, 249, 4, 150), mb50(10, 100, 250, 4, 150), mb50(10, 100, 100, 4, 199), mb50(10, 100, 100, 4, 200)]
    for mach in (250, 251):
        V.append(mb60(100, 300, mach, 5, 5))
    for r in (-188, -187, 187, 188):
        V += [mb60(100, 300, 200, r, 3), mb60(100, 300, 200, 3, r)]
    # zero value fields, single status bit cleared
    for k in range(5):
        st = [1] * 5
        st[k] = 0
        V += [mb50(10, 100, 200, 4, 190, st=tuple(st)), mb60(100, 300, 200, 5, 5, st=tuple(st))]
    for k in range(3):
        st = [1] * 3
        st[k] = 0
        V.append(mb40(2000, 2000, 2132, st=tuple(st)))
    # a group reported as "not available" the way Doc 9871 prescribes - status bit cleared AND the value field all zero - next to four
    # (two) valid groups: still not a register with all status bits set (round 12)
    for k in range(5):
        st = [1] * 5
        st[k] = 0
        v50, v60 = [10, 100, 200, 4, 190], [100, 300, 200, 5, 5]
        v50[k] = v60[k] = 0
        V += [mb50(*v50, st=tuple(st)), mb60(*v60, st=tuple(st))]
    for k in range(3):
        st = [1] * 3
        st[k] = 0
        v40 = [2000, 2000, 2132]
        v40[k] = 0
        V.append(mb40(*v40, st=tuple(st)))
    V += [mb40(2000, 2000, 2132, rsv40=1), mb40(2000, 2000, 2132, rsv40=128), mb40(2000, 2000, 2132, rsv52=1), mb40(2000, 2000, 2132, rsv52=2),
          mb40(0, 2000, 2132), mb40(2000, 0, 2132), mb40(2000, 2000, 0), mb40(4095, 1, 4095), mb40(1, 4095, 1),
          mb50(0, 100, 200, 4, 190), mb50(10, 0, 200, 4, 190), mb50(10, 100, 0, 4, 190), mb50(10, 100, 200, 0, 190), mb50(10, 100, 200, 4, 0),
          mb60(0, 300, 200, 5, 5), mb60(100, 0, 200, 5, 5), mb60(100, 300, 0, 5, 5), mb60(100, 300, 200, 0, 5), mb60(100, 300, 200, 5, 0),
          mb50(-512, 100, 200, -512, 190), mb60(100, 300, 200, -512, -512)]
    # explicit registers
    for cs in ('KLM1023', 'A', '', 'ZZ99ZZ99'):
        V.append(mb20(callsign_codes(cs)))
    V.append(mb20([rng.getrandbits(6) for _ in range(8)]))
    V += [mb30(1, 0), mb30(0, 1), mb30(1, 1), mb30(0, 0), mb30(1, 0, rest=rng.getrandbits(28))]
    V += [pack([(0x10, 8), (rng.getrandbits(48), 48)]), pack([(0x10, 8), (0, 48)])]
    # capability reports
    for sub in range(8):
        V.append(mb17(1, sub & 1, (sub >> 1) & 1, (sub >> 2) & 1))
    V += [mb17(0, 1, 1, 1), mb17(1, 1, 1, 1, low=1), mb17(1, 1, 1, 1, low=1 << 27), mb17(1, 1, 1, 1, low=1 << 30)]
    for _ in range(n * 2):
        V.append(bits_of(rng.getrandbits(56), 56))
    V += [bits_of(0, 56), bits_of((1 << 56) - 1, 56)]
    return V


def c10(tier):
    rep = Report('C10', tier)
    thm(rep, 'commb', 'Comm-B encoders / field extractors / validity and precedence predicates over signed ranges (roll, rates, track, heading): round trips, IntNear of the floor decoding, strict 4,0/5,0/6,0 registers never look like an earlier register', stride=6 if tier == 'quick' else 1)
    rng = random.Random(vlib.seed())
    V = commb_values(rng, tier)
    groups = []
    setups = [
        lambda a: [short(4, enc_alt13(30000), a)],
        lambda a: [df11(0, a)],
        lambda a: [df11(3, a)],
        lambda a: [df11(4, a)],
        lambda a: [df11(5, a)],
        lambda a: [df17(5, a, me_opstatus(2))],
        lambda a: [df11(7, a)],
        lambda a: [df11(6, a)],
        lambda a: [df11(5, a), df11(7, a)],
        lambda a: [df17(7, a, me_opstatus(2))],
        lambda a: [df11(5, a), df11(0, a)],
        # DF18 comes from equipment that is not a transponder: its CF field (bits 6-8) opens or closes nothing
        lambda a: [df11(0, a), df17(6, a, me_ident(4, 1, callsign_codes('ADSR')), df=18)],
        lambda a: [short(4, enc_alt13(30000), a), df17(5, a, me_opstatus(2), df=18), df17(4, a, me_velocity(1, 0, 100, 1, 200, 0, 10), df=18)],
        lambda a: [df11(5, a), df17(0, a, me_ident(4, 1, callsign_codes('TISB')), df=18)],
        lambda a: [df17(7, a, me_ident(4, 1, callsign_codes('FIRST18')), df=18), df17(7, a, me_ident(4, 1, callsign_codes('FIRST18')), df=18)],
    ]
    adverts = [None] + [mb17(1, s & 1, (s >> 1) & 1, (s >> 2) & 1) for s in range(8)]
    k = 0
    for opts in OPTSETS:
        for su in setups:
            for adv in adverts:
                k += 1
                a = 0x3c4000 + k
                g = [reset(opts)]
                for l in su(a):
                    g.append(run1(l))
                if adv is not None:
                    g.append(run1(long_(20, enc_alt13(31000), adv, a)))
                vs = V if (tier == 'thorough' and k % 5 == 0) else rng.sample(V, 14 if tier == 'quick' else 60)
                for mb in vs:
                    g.append(run1(long_(rng.choice([20, 21]), rng.getrandbits(13) | 16, mb, a, rng.getrandbits(14))))
                groups.append(g)
        # first-frame context and late adverts: data, then DF11, then advert, then the same data again
        for j in range(6 if tier == 'quick' else 60):
            a = 0x3c8000 + k * 100 + j
            mbs = rng.sample(V, 6)
            g = [reset(opts)]
            for mb in mbs:
                g.append(run1(long_(20, enc_alt13(32000), mb, a)))
            g.append(run1(df11(5, a)))
            for mb in mbs:
                g.append(run1(long_(21, enc_squawk(4, 3, 2, 1), mb, a)))
            g.append(run1(long_(20, enc_alt13(32000), mb17(1, 1, 1, 1), a)))
            for mb in mbs:
                g.append(run1(long_(20, enc_alt13(32000), mb, a)))
            groups.append(g)
    # the advertised registers stay advertised when a later DF11 reports another capability value (ground / airborne: CA 4 <-> 5)
    for opts in OPTSETS:
        for ca1, ca2 in ((4, 5), (5, 4), (5, 7), (6, 5)):
            a = 0x3cd000 + 16 * OPTSETS.index(opts) + ca1 + 4 * (ca2 % 4)
            gs_ = rng.randint(80, 240)
            g = [reset(opts), run1(df11(ca1, a)), run1(long_(20, enc_alt13(31000), mb17(1, 1, 1, 1), a)), run1(df11(ca2, a)),
                 run1(long_(20, enc_alt13(31000), mb40(2000, 2001, 2132), a)),
                 run1(long_(21, enc_squawk(1, 2, 3, 4), mb50(rng.randint(-100, 100) or 1, rng.randrange(1, 1024), gs_, rng.randint(-100, 100) or 1, gs_ + 5), a)),
                 run1(long_(20, enc_alt13(31000), mb60(rng.randrange(1, 2048), rng.randint(1, 500), rng.randint(1, 250), 20, 21), a))]
            groups.append(g)
    # the threat flag follows the latest BDS 3,0 reply: set, cleared, set again (gate open); untouched while the gate is closed
    for opts in OPTSETS:
        for ca in (5, 0):
            a = 0x3cc000 + ca + 16 * OPTSETS.index(opts)
            g = [reset(opts), run1(df11(ca, a))]
            for ara, mte in ((1, 0), (0, 0), (0, 1), (0, 0), (1, 1), (0, 0), (0, 0)):
                g.append(run1(long_(rng.choice([20, 21]), rng.getrandbits(13) | 16, mb30(ara, mte, rest=rng.getrandbits(28)), a)))
                g.append(run1(short(4, enc_alt13(12000), a)))
            groups.append(g)
    firsts = [mb20(callsign_codes('FIRST1')), mb30(1, 0), mb30(0, 1), mb17(1, 1, 1, 1), mb40(2000, 2001, 2132), mb50(40, 300, 220, 5, 215),
              mb50(-40, 300, 220, -5, 215), mb60(500, 280, 190, -20, -21), pack([(0x10, 8), (0, 48)])]
    for opts in OPTSETS:
        for j, mb in enumerate(firsts):
            for dfn in (20, 21):
                a = 0x3cf000 + j * 4 + dfn
                # first contact is the data reply itself; then a second copy; then capability; then again
                groups.append([reset(opts), run1(long_(dfn, enc_alt13(5000) if dfn == 20 else enc_squawk(1, 0, 0, 1), mb, a)),
                               run1(long_(dfn, enc_alt13(5025) if dfn == 20 else enc_squawk(1, 0, 0, 2), mb, a)),
                               run1(df11(0, a)), run1(long_(dfn, 16, mb, a)), run1(df11(5, a)), run1(long_(dfn, 16, mb, a))])
    conform(rep, 'C10', groups, maxlen=2500)
    rep.rule = ('DF20/DF21 replies whose MB is generated from physical values (roll +-50, track 0..360, rate +-16, GS/TAS to their limits '
                'and across |GS-TAS|=200, heading, IAS, Mach to 1.0, rates +-6000, selected altitude, QNH 800..1210), boundary values of '
                'every plausibility limit, one status bit cleared, one reserved bit set, zero value fields, BDS 1,0/2,0/3,0/1,7 and random MB; '
                'after 11 capability states (no DF11, DF11 CA 0/3/4/5, DF17 CA5, CA5 then CA0, and DF18 frames with CF 4..7 / 0 after CA 0 / nothing / CA 5) x {no advert, BDS 1,7 advertising each subset of '
                '4,0/5,0/6,0} x option sets {none,-U,-R,-U -R}; also data before/after DF11 and advert. Non-trivial = a register that must be '
                'decoded, or a fully valid register arriving while the gate is closed (spec-decided)')
    vlib.nt_floor(rep, 300)
    return rep


CHECKS['C10'] = c10


# ----------------------------------------------------------------------------------------- C08
def nl_boundaries():
    import math
    out = []
    for nl in range(2, 60):
        out.append(math.degrees(math.acos(math.sqrt((1 - math.cos(math.pi / 30)) / (1 - math.cos(2 * math.pi / nl))))))
    return out


def c08_positions(rng, tier):
    P = []
    bnd = nl_boundaries()
    # inside every NL zone, both hemispheres
    edges = [0.0] + sorted(bnd)
    for i in range(len(edges) - 1):
        mid = (edges[i] + edges[i + 1]) / 2
        for sgn in (1, -1):
            P.append((sgn * mid, rng.uniform(-180, 180)))
    # both sides of zone boundaries (pairs may straddle)
    for b in bnd:
        for off in ((-0.003, -0.0005, 0.0005, 0.003) if tier == 'thorough' else (-0.0004, 0.0004)):
            for sgn in (1, -1):
                P.append((sgn * (b + off), rng.uniform(-180, 180)))
    # equator, antimeridian, prime meridian, near the poles' limit
    P += [(0.0004, 10.0), (-0.0004, -10.0), (0.001, 179.9995), (0.001, -179.9995), (45.0, 179.9999), (-45.0, -179.9999), (51.0, 0.0002),
          (51.0, -0.0002), (86.9, 20.0), (-86.9, -120.0), (86.99, 100.0), (52.2572, 3.91937)]
    n = 20 if tier == 'quick' else 3000
    for _ in range(n):
        P.append((rng.uniform(-86.5, 86.5), rng.uniform(-180, 180)))
    return P


def c08(tier):
    rep = Report('C08', tier)
    thm(rep, 'cpr', 'CPR round trip on a stratified lattice (every 0.03 deg of latitude and both sides of each degree, 7 longitudes incl. antimeridian, both parities): same-zone pairs decode within one bin of the newer position inside the legal ranges, straddling pairs decode to nothing', stride=8 if tier == 'quick' else 1)
    rng = random.Random(vlib.seed())
    P = c08_positions(rng, tier)
    delays = [0, 3000, 9000, 9900, 10000, 10100, 11000, 60000]
    observers = [None, '90,0', '-90, 0', ' 90 , 0 ', '48.5,11.25', '-17.75, 178.0', '10, -179.5', '0,0', '-33.9,151.2']
    groups = []
    k = 0
    for (lat, lon) in P:
        k += 1
        a = 0x3d0000 + (k % 0xffff)
        opts = [[], ['-U']][k % 2]
        obs = observers[k % len(observers)]
        first_odd = (k // 2) % 2
        d = delays[(k // 4) % len(delays)]
        dlat, dlon = rng.uniform(-0.004, 0.004), rng.uniform(-0.004, 0.004)
        p1 = cpr_encode(lat, lon, first_odd)
        p2 = cpr_encode(lat + dlat, lon + dlon, 1 - first_odd)
        p3 = cpr_encode(lat + 2 * dlat, lon + 2 * dlon, first_odd)
        # a position is a position whether or not the altitude of the frame decodes (not available, below -25 ft, Q=0 codes)
        noalt = {1: (1, 1, 1), 2: (1, 0, 0), 3: (0, 1, 0), 4: (0, 0, 1), 5: (1, 0, 1)}.get(k % 11 if k % 2 else (k // 2) % 11, (0, 0, 0))
        nth = [0]

        def mk(p, odd):
            bad = nth[0] < 3 and noalt[nth[0]]
            nth[0] += 1
            ac = rng.choice([0, 0x056, 16, 0x002, enc_alt12(-50), enc_alt12(-1000)]) if bad else enc_alt12(rng.randrange(0, 40000, 25))
            return df17(5, a, me_airpos(rng.choice([9, 11, 18]), 0, ac, odd, p[0], p[1]))
        g = [reset(opts, obs=obs)]
        g.append(run1(mk(p1, first_odd)))                   # single frame: nothing shown
        if k % 3 == 0:                                      # other frames interleaved
            g.append(run1(df17(5, a, me_velocity(1, 0, 100, 1, 200, 0, 10))))
            g.append(run1(short(4, enc_alt13(30000), a)))
        if d:
            g.append(tick(d))
        g.append(run1(mk(p2, 1 - first_odd)))               # pair complete (or too late / straddling)
        d2 = delays[(k // 32) % len(delays)]
        if d2:
            g.append(tick(d2))
        g.append(run1(mk(p3, first_odd)))                   # next frame pairs with the previous one
        if k % 5 == 0:
            g.append(run1(mk((0, p3[1]), 1 - first_odd)))   # a zero CPR field counts as not received
            g.append(run1(mk(p2, 1 - first_odd)))
        if k % 4 == 1:
            # the same half again (hovering / slow target: identical CPR fields), right away and after the window has passed:
            # a repeat is a reception like any other - it re-stamps its slot and is paired with the other one
            g.append(run1(mk(p3, first_odd)))
            d3 = delays[(k // 8) % len(delays)]
            if d3:
                g.append(tick(d3))
            g.append(run1(mk(p2, 1 - first_odd)))
            g.append(run1(mk(p3, first_odd)))
        if k % 8 == 3:
            # the wall clock steps BACK between two halves (a stored half is stamped later than the frame now arriving): the window is
            # about the distance in time, whichever way round
            g.append(tick(-rng.choice([11000, 60000, 3400000])))
            g.append(run1(mk(p2, 1 - first_odd)))
            g.append(run1(mk(p3, first_odd)))
        if k % 4 == 2:
            # a jump: the next pair is somewhere else entirely (the position shown is that of the latest pair, however far away)
            lat2 = max(-86.0, min(86.0, lat + rng.choice([-1, 1]) * rng.uniform(1.5, 40)))
            lon2 = ((lon + rng.uniform(-170, 170) + 180) % 360) - 180
            q1, q2 = cpr_encode(lat2, lon2, first_odd), cpr_encode(lat2, lon2, 1 - first_odd)
            g += [run1(mk(q1, first_odd)), run1(mk(q2, 1 - first_odd)), run1(mk(q1, first_odd))]
        groups.append(g)
    # exact geometries for the distance column: lon = 90 deg is exactly representable in zones 59/58
    for j, (lat, obs) in enumerate([(5.0, '1,90'), (5.0, '-7.5, 90'), (-3.0, '10,-90'), (7.0, '0,-90'), (5.0, '90,0'), (-5.0, '-90,123')]):
        a = 0x3e0000 + j
        for opts in ([], ['-U']):
            g = [reset(opts, obs=obs)]
            g.append(run1(df17(5, a, me_airpos(11, 0, enc_alt12(10000), 0, *cpr_encode(lat, 90.0, 0)))))
            g.append(run1(df17(5, a, me_airpos(11, 0, enc_alt12(10000), 1, *cpr_encode(lat, 90.0, 1)))))
            g.append(run1(df17(5, a, me_airpos(11, 0, enc_alt12(10000), 0, *cpr_encode(lat + 0.001, 90.0, 0)))))
            groups.append(g)
    conform(rep, 'C08', groups, maxlen=2500)
    rep.rule = ('true positions stratified over every NL zone in both hemispheres, both sides of %s zone boundaries (straddling pairs), equator, '
                'antimeridian, prime meridian, |lat| up to 86.99, %d random; both parities first; second frame displaced by < 0.004 deg; delays '
                '{0,3,9,9.9,10,10.1,11,60} s between the frames (stamp shifting); a third frame; zero CPR fields; velocity / DF4 frames interleaved; '
                'frames whose altitude field does not decode (not available, below -25 ft, Q=0) in the first / second / third / all positions; '
                'identical halves received again (right away, after the window); jumps of 1.5..40 deg between consecutive pairs; '
                '-U on/off; observers none / "90,0" / "-90, 0" / " 90 , 0 " / general, and exact same-meridian / opposite-meridian geometries. '
                'Non-trivial = airborne-position frame arriving when the other parity slot is filled and the verdict (decode/keep) is determined'
                % ('all 58' if tier == 'thorough' else '10', 20 if tier == 'quick' else 3000))
    vlib.nt_floor(rep, 100)
    return rep


CHECKS['C08'] = c08



# ------------------------------------------------------------------------- E1: theorem domains
def thm(rep, mode, what, maxburst=8, stride=1, workers=8):
    import threading
    cfg = 'Thm.run%d_%d_%s.cfg' % (os.getpid(), threading.get_ident(), mode)
    with open(os.path.join(vlib.SPEC, cfg), 'w') as f:
        f.write('SPECIFICATION Spec\nCONSTANTS\n  Mode = "%s"\n  MaxBurst = %d\n  Stride = %d\nINVARIANT Thm\n' % (mode, maxburst, stride))
    try:
        r = vlib.tlc_model('Thm', cfg=cfg, workers=workers, timeout=3000)
    finally:
        os.remove(os.path.join(vlib.SPEC, cfg))
    r['module'] = 'Thm[%s]' % mode
    rep.add_model(r, what)


LINE_CFG = """SPECIFICATION Spec
CONSTANTS
  Alphabet <- AlphaLit
  Filt <- NoFilt
  OptR = FALSE
  OptU = FALSE
  DeleteAfter = 60
  Ticks <- TickSet
  MaxSteps = %d
  Batch <- One
  TickResetsCtr = FALSE
INVARIANT InvFold
INVARIANT InvCount
INVARIANT Total
PROPERTY Inert
PROPERTY Isolation
VIEW View
CHECK_DEADLOCK FALSE
"""


def line_model(rep, tier, emit=False):
    depth = 4 if tier == 'quick' else 6
    return model_and_scenarios(rep, 'MC_line', LINE_CFG % depth,
                               'line model: 15-line alphabet (accepted frames and every way a line fails to be a frame), depth %d: Total (every '
                               'line has an outcome), Inert (a rejected line changes nothing later lines depend on), InvFold / InvCount over '
                               'the accepted subsequence' % depth, emit=emit, workers=8)


# ------------------------------------------------------------------------- model-driven checks
import scn


def model_and_scenarios(rep, module, cfg_text, what, emit=True, workers=1, timeout=3000):
    """writes spec/<module>.gen.cfg from cfg_text, runs TLC (invariants + scenario emission), returns scenarios"""
    import threading
    cfg = module + '.run%d_%d.cfg' % (os.getpid(), threading.get_ident())
    with open(os.path.join(vlib.SPEC, cfg), 'w') as f:
        f.write(cfg_text + ('ACTION_CONSTRAINT Emit\n' if emit else ''))
    try:
        r = vlib.tlc_model(module, cfg=cfg, workers=workers, timeout=timeout)
    finally:
        os.remove(os.path.join(vlib.SPEC, cfg))
    rep.add_model(r, what)
    if emit and workers > 1:
        # several workers print concurrently: every transition must have produced one well-formed line
        n = sum(1 for l in r['out'].split('\n') if scn.SCN.match(l.strip()))
        if n != r['transitions'] - 1:
            log('scenario lines %d != transitions %d: re-running %s with one worker' % (n, r['transitions'] - 1, module))
            rep.models.pop(); rep.states -= r['states']; rep.transitions -= r['transitions']
            return model_and_scenarios(rep, module, cfg_text, what, emit, 1, timeout)
    return scn.parse_scenarios(r['out']) if emit else set()


HIST_CFG = """SPECIFICATION Spec
CONSTANTS
  Alphabet <- AlphaLit
  Filt <- NoFilt
  OptR = %s
  OptU = FALSE
  DeleteAfter = 60
  Ticks <- TickSet
  MaxSteps = %d
  Batch <- One
  TickResetsCtr = FALSE
INVARIANT InvFold
INVARIANT InvExpiry
INVARIANT InvCount
INVARIANT InvRange
PROPERTY Isolation
VIEW View
CHECK_DEADLOCK FALSE
"""


def hist_scenarios(rep, tier, prop):
    """E1 + E2 on the history model; returns command groups for all option sets"""
    alpha = scn.parse_literal_alphabet('hist')
    groups = []
    depth = 3 if tier == 'quick' else 4
    import concurrent.futures as cf
    what = ('history model, 24-frame alphabet, 2 aircraft, ticks 9/11 s, depth %d, -R %s: InvFold (C11 reference fold), '
            'Isolation (C03), InvExpiry (C12), InvCount (C16), InvRange (C08)')
    with cf.ThreadPoolExecutor(max_workers=2) as ex:
        futs = {R: ex.submit(model_and_scenarios, rep, 'MC_hist', HIST_CFG % ('TRUE' if R else 'FALSE', depth), what % (depth, R))
                for R in (False, True)}
        res = {R: f.result() for R, f in futs.items()}
    for R in (False, True):
        trie = scn.trie_of(res[R])
        rep.extra.setdefault('model_transitions_replayed', 0)
        for U in (False, True):
            opts = (['-U'] if U else []) + (['-R'] if R else [])
            groups += scn.groups_from_trie(trie, alpha, opts, split_depth=2)
            rep.extra['model_transitions_replayed'] += scn.count_edges(trie)
    return groups


def c11(tier):
    rep = Report('C11', tier)
    rng = random.Random(vlib.seed())
    groups = hist_scenarios(rep, tier, 'C11')
    # random long interleavings of generated frames for 1..4 aircraft with ticks
    nh = 8 if tier == 'quick' else 300
    for h in range(nh):
        opts = OPTSETS[h % 4]
        acs = [0x4a0000 + rng.getrandbits(12) for _ in range(1 + h % 4)]
        g = [reset(opts)]
        pool = []
        for a in acs:
            pool += other_format_frames(a, rng)
            # Comm-B replies that are a valid BDS 5,0 and whose bits also look like a BDS 6,0 (track >= 180 deg sets the bit that is
            # the IAS status of 6,0), and genuine 6,0 replies: one reply is one register
            pool += [long_(20, enc_alt13(33000), mb17(1, 1, 0, 1), a), long_(20, enc_alt13(33000), mb17(1, 0, 1, 0), a), long_(20, enc_alt13(33000), mb17(1, 1, 1, 0), a),
                     df17(5, a, me_ident(rng.randint(1, 4), rng.randint(1, 7), [32] * 8)), df17(5, a, me_ident(4, 5, callsign_codes('CAT45')))]
            # velocity reports one of whose fields says "no information" (0), among valid ones: the latest report decides (round 13)
            pool += [df17(5, a, me_velocity(1, 0, 0, 1, 300, 0, 10)), df17(5, a, me_velocity(1, 0, 200, 1, 0, 1, 0)),
                     df17(5, a, me_velocity(2, 1, rng.randint(1, 400), 0, rng.randint(1, 400), 1, rng.randint(1, 100)))]
            for _ in range(3):
                gs_ = rng.randint(60, 240)
                pool.append(long_(rng.choice([20, 21]), enc_alt13(33000), mb50(rng.randint(-100, 100) or 1, rng.randrange(1024, 2048), gs_, rng.randint(-100, 100) or 1, max(1, min(180, gs_ + rng.randint(-30, 30)))), a))
                pool.append(long_(20, enc_alt13(33000), mb60(rng.randrange(1, 2048), rng.randint(1, 500), rng.randint(1, 250), rng.randint(-187, 187) or 2, rng.randint(-187, 187) or -2), a))
        for _ in range(120):
            r = rng.random()
            if r < 0.1:
                g.append(tick(rng.choice([1000, 5000, 9000, 11000, 30000])))
            elif r < 0.25 and len(g) > 1 and g[-1]['c'] == 'run':
                g.append(dict(g[-1]))                       # re-feed the frame just applied
            else:
                g.append(run1(rng.choice(pool)))
        groups.append(g)
    # recorded traffic, line by line (every per-frame predicate applies); raw1.txt starts with non-UTF-8 noise
    for name, nq, nt in (('squitters.txt', 1500, 30000), ('sbs2.txt', 500, 8000), ('raw1.txt', 300, 3000), ('df0-df16.txt', 300, 3000),
                         ('df24.txt', 100, 1000), ('sbs1.txt', 100, 1000), ('raw2.txt', 200, 3000)):
        try:
            lines = recorded_lines(name, nq if tier == 'quick' else nt, start=rng.randrange(0, 50))
        except OSError:
            continue
        for k, opts in enumerate(OPTSETS[:2] if tier == 'quick' else OPTSETS):
            for i in range(0, len(lines), 1500):
                groups.append([reset(opts)] + [run1(l) for l in lines[i:i + 1500]])
    # segmentation invariance: one line per reader run vs the whole history in one run
    nseg = 24 if tier == 'quick' else 400
    for h in range(nseg):
        opts = OPTSETS[h % 4]
        acs = [0x4a8000 + rng.getrandbits(10) for _ in range(1 + h % 3)]
        if h % 2:
            acs.append((acs[0] & 0xfff000) | ((acs[0] + 0x400) & 0xfff))     # a neighbour in the same 4096-address page
        pool = []
        for a in acs:
            pool += other_format_frames(a, rng) + valid_value_frames(a, rng)
        lines = [rng.choice(pool) for _ in range(rng.randrange(5, 40))]
        if h % 3 == 2:                                  # unbroken blocks of extended squitters of several aircraft
            lines = [l for l in lines if l[0] == '8'] or lines
        for j in range(len(lines) - 1):
            r_ = rng.random()
            if r_ < 0.12:
                lines[j + 1] = lines[j]
            elif r_ < 0.3 and j >= 3:
                lines[j + 1] = lines[j - rng.randrange(1, 4)]      # F, G, F: an identical frame a few lines later
        g = [reset(opts, slot=0), reset(opts, slot=1)] + [run1(l, slot=0) for l in lines] + [runn(lines, slot=1, tag={'pair': 'seg'})]
        groups.append(g)
    conform(rep, 'C11', groups, maxlen=4000)
    # the outermost interface, without the harness: the real binary with --update=-1 prints one refresh per applied frame; TLC parses
    # every refresh through its own header and judges each frame's effect on the PRINTED values with the same predicates
    cb = vlib.build_cli('release')
    evs = []
    for k in range(8 if tier == 'quick' else 80):
        opts = OPTSETS[k % 4] + ([['-i', 'aAews'], ['-i', 'e'], ['-i', ''], []][(k // 4) % 4])
        acs = [0x4a9000 + rng.getrandbits(10) for _ in range(2 + k % 3)]
        pool = []
        for a in acs:
            pool += other_format_frames(a, rng) + valid_value_frames(a, rng)
        pool += nine_frames(0, rng)[:3] + ['zz', '', '8D4840D6']
        lines = [list(rng.choice(pool).encode()) for _ in range(rng.randrange(20, 70))]
        e = cli_event(cb, 'release', opts, lines, len(evs) + 1, keep_snaps=True)
        e['e'] = 'clistream'
        e['args']['U'] = '-U' in opts
        e['args']['R'] = '-R' in opts
        e.pop('last', None)
        evs.append(e)
    trc = os.path.join(vlib.workdir(), 'c11cli.trace.ndjson')
    vlib.write_ndjson(trc, evs)
    rep.add_validation(vlib.validate([trc], 'C11'))
    rep.extra['cli_streams'] = len(evs)
    rep.rule = ('(i) every transition of the bounded history model (TLC, depth %d, 24-frame alphabet, 2 aircraft, ticks 9 s / 11 s, -R on/off) '
                'replayed through the real reader under {none,-U} x {-R}, as a prefix-tree walk with save/restore: one reader run per model '
                'transition, all parameters of the row judged after every step; (ii) %d random histories of 120 steps for 1..4 aircraft with '
                'ticks and re-fed frames; (iii) %d streams through the real CLI binary (--update=-1): every printed refresh parsed through its own '
                'header, each frame judged on the printed altitude / squawk / callsign / speed / track / rate, other rows textually unchanged. '
                'Non-trivial = applied frame of a constrained format on an existing row; distinct by (line, slot) '
                '(conservative: the same line in different histories counts once)' % (3 if tier == 'quick' else 4, nh, len(evs)))
    vlib.nt_floor(rep, 20)
    return rep


CHECKS['C11'] = c11


# ----------------------------------------------------------------------------------------- C12
EXP_CFG = """SPECIFICATION Spec
CONSTANTS
  Alphabet <- AlphaLit
  Filt <- NoFilt
  OptR = FALSE
  OptU = FALSE
  DeleteAfter = %d
  Ticks <- TickSet
  MaxSteps = %d
  Batch <- Batches
  TickResetsCtr = TRUE
INVARIANT InvFold
INVARIANT InvExpiry
INVARIANT InvCount
PROPERTY Isolation
VIEW View
CHECK_DEADLOCK FALSE
"""


def runs_of_scenario(sc, alpha, opts):
    """a model path -> reset + multi-line reader runs separated by ticks (step k + 1000*(n-1) = frame k, n times)"""
    g = [reset(opts)]
    cur = []
    for st in sc:
        if st < 0:
            if cur:
                g.append(runn(cur)); cur = []
            g.append(tick(-st))
        else:
            k, n = st % 1000, st // 1000 + 1
            cur += [alpha[k - 1]] * n
    if cur:
        g.append(runn(cur))
    return g


def leaves(scs):
    """scenarios that are not a proper prefix of another one"""
    pre = set()
    for sc in scs:
        for i in range(len(sc)):
            pre.add(sc[:i])
    return [sc for sc in scs if sc not in pre]


def realtime_crosscheck(binary):
    """stamp shifting must agree with real elapsed time (-d 1, 1.2 s): otherwise the simulation is not faithful"""
    a, b = 0x4d0001, 0x4d0002
    fa = df17(5, a, me_ident(4, 1, callsign_codes('REAL')))
    fb = [short(5, enc_squawk(1, 1, 1, 1), b)] * 12
    outs = []
    for mode in ('sleep', 'tick'):
        cmds = [reset(['-d', '1']), run1(fa), ({'c': 'sleep', 'ms': 1200} if mode == 'sleep' else tick(1200)), runn(fb),
                reset(['-d', '5']), run1(fa), ({'c': 'sleep', 'ms': 1200} if mode == 'sleep' else tick(1200)), runn(fb)]
        tr = vlib.sqv_exec(binary, cmds, 'realtime-' + mode)
        outs.append([e['k1'] for e in vlib.read_ndjson(tr) if e['e'] == 'run'])
    if outs[0] != outs[1]:
        raise ToolError('stamp shifting disagrees with real time: %s vs %s' % (outs[0], outs[1]))
    return outs[0]


def apalache_ind(rep, prop, module, scope):
    """unbounded part: Apalache discharges the inductive invariant IndInv of spec/apalache/<module>.tla (base + step)"""
    import subprocess, shutil
    d = os.path.join(vlib.SPEC, 'apalache')
    out_dir = os.path.join(vlib.workdir(), 'apa')
    res = []
    for what, extra in (('base', ['--init=Init', '--length=0']), ('step', ['--init=IndInit', '--length=1'])):
        try:
            p = subprocess.run(['apalache-mc', 'check', '--cinit=ConstInit', '--inv=IndInv', '--out-dir=' + out_dir] + extra + [module + '.tla'],
                               cwd=d, stdout=subprocess.PIPE, stderr=subprocess.STDOUT, text=True, timeout=600)
            ok = 'The outcome is: NoError' in p.stdout
            res.append((what, ok, p.stdout[-400:] if not ok else ''))
        except (OSError, subprocess.TimeoutExpired) as e:
            res.append((what, None, str(e)))
    shutil.rmtree(out_dir, ignore_errors=True)
    rep.extra['apalache_' + module.lower()] = [{'obligation': w, 'discharged': ok} for w, ok, _ in res]
    if any(ok is False for _, ok, _ in res):
        rep.viol.append({'prop': prop, 'pred': 'model:%s.IndInv' % module, 'i': 0, 'tag': 'apalache', 'trace': None, 'event': None,
                         'model_output': '\n'.join(o for _, _, o in res)})
    elif all(ok for _, ok, _ in res):
        rep.notes.append('Apalache: Init => IndInv and IndInv /\\ Next => IndInv\' discharged for %s.tla (%s)' % (module, scope))
    else:
        rep.notes.append('Apalache not available or timed out (not load-bearing): %s' % res)


def apalache_expiry(rep):
    apalache_ind(rep, 'C12', 'Expiry', 'unbounded clock and counters, D in 1..100000, 3 aircraft')


def c12(tier):
    rep = Report('C12', tier)
    apalache_expiry(rep)
    rng = random.Random(vlib.seed())
    alpha = scn.parse_literal_alphabet('expiry')
    groups = []
    cfgs = [(2, 4)] if tier == 'quick' else [(2, 5), (1, 4), (5, 4)]
    for D, depth in cfgs:
        scs = model_and_scenarios(rep, 'MC_expiry', EXP_CFG % (D, depth),
                                  'expiry model: 3 aircraft, 5 frames, batches {1,10,11}, delete_after %d s, ticks D-1/D/D+1 s, depth %d: '
                                  'InvExpiry (present while heard, stamp = last heard, stale rows gone within 12 frames of a run)' % (D, depth),
                                  workers=8)
        lv = leaves(scs)
        rep.extra.setdefault('model_leaf_scenarios', 0)
        rep.extra['model_leaf_scenarios'] += len(lv)
        # display options must not matter for expiry: alternate quiet / non-quiet with a refresh per frame / counters
        variants = [[], ['-U'], ['-i', 'e', '--update=-1'], ['-U', '-i', 'aA', '-u', '0', '-c']]
        for i, sc in enumerate(sorted(lv)):
            if tier == 'quick' and i % 2:
                continue
            g = runs_of_scenario(sc, alpha, ['-d', str(D)])
            v = variants[(i // 2) % len(variants)]
            g[0] = {'c': 'reset', 'opts': (['-i', 'Q'] if '-i' not in v else []) + ['-d', str(D)] + v, 'slot': 0}
            groups.append(g)
    # random schedules: every format as the refreshing frame, delete_after in {1,5,60,600,86400}
    nr = 40 if tier == 'quick' else 1500
    for h in range(nr):
        D = rng.choice([1, 5, 60, 600] + ([86400] if tier == 'thorough' else []))
        if h % 10 == 9:
            D = rng.choice([9999999999999, 9223372036854775807, 100000000000000])     # "never expire"
        opts = ['-d', str(D)] + (['-U'] if h % 2 else []) + (['-R'] if h % 3 == 0 else []) + \
               (['-i', 'e', '--update=-1'] if h % 4 == 1 else (['-i', 'w', '-u', '0', '-c'] if h % 4 == 2 else []))
        acs = [0x4c0000 + rng.getrandbits(10) for _ in range(rng.randrange(2, 5))]
        pools = {a: other_format_frames(a, rng) for a in acs}
        g = [reset(opts)]
        for _ in range(rng.randrange(4, 12)):
            n = rng.choice([1, 2, 5, 11, 12, 13, 25])
            focus = rng.sample(acs, rng.randrange(1, len(acs) + 1))
            lines = [rng.choice(pools[rng.choice(focus)]) for _ in range(n)]
            c_ = runn(lines)
            if h % 5 == 4:
                c_['contend'] = True          # a consumer of the table holds read guards while the run goes on
            g.append(c_)
            Dt = min(D, 700)
            g.append(tick(rng.choice([0, (Dt - 1) * 1000, Dt * 1000 - 100, Dt * 1000, Dt * 1000 + 100, (Dt + 1) * 1000, 2 * Dt * 1000]) or 1))
        if '-i' in opts:
            g[0] = {'c': 'reset', 'opts': opts, 'slot': 0}
        groups.append(g)
    # every supported format (and every kind of extended squitter, DF18 included) as the one frame that keeps a row alive:
    # heard at D-1 s, so at D+1 s the row is 2 s old although its creation is D+1 s ago; then a sweep
    k = 0
    for D in (5, 60):
        for opts in ([], ['-U'], ['-R']):
            a, b = 0x4c4000 + k, 0x4c4800 + k
            k += 1
            refreshers = nine_frames(a, rng) + [x for x in other_format_frames(a, rng) if x[0] in '89'] + \
                [df17(rng.getrandbits(3), a, me_ident(4, 1, callsign_codes('TISB')), df=18), df17(2, a, me_velocity(1, 0, 100, 1, 200, 0, 10), df=18)]
            for fr in refreshers:
                g = [reset(['-d', str(D)] + opts), run1(df11(5, a)), tick((D - 1) * 1000), run1(fr), tick(2000),
                     runn([rng.choice(nine_frames(b, rng)) for _ in range(13)]), runn([df11(5, b)])]
                groups.append(g)
    # large tables: 12..40 rows overdue at once, then 12..14 frames of one aircraft: all the others are gone (the bound of 12
    # frames does not grow with the table)
    for k, nrows in enumerate((12, 13, 20, 40) if tier == 'quick' else (11, 12, 13, 16, 20, 33, 40, 64, 100)):
        for opts in ([], ['-U']):
            D = (1, 60)[k % 2]
            acs = [0x4c5000 + 64 * k + j for j in range(nrows)]
            g = [reset(['-d', str(D)] + opts)]
            first = []
            for a in acs:
                first.append(rng.choice(nine_frames(a, rng)))
            g.append(runn(first[:10]))
            g += [run1(l) for l in first[10:]]
            g.append(tick((D + 1) * 1000))
            g.append(runn([rng.choice(nine_frames(acs[0], rng)) for _ in range(12 + k % 3)]))
            g.append(runn([df11(5, acs[0])]))
            groups.append(g)
    # a downlink log that cannot be written (-D /dev/full, -D into a missing directory) changes nothing about expiry
    for dlog in ('/dev/full', os.path.join(vlib.workdir(), 'missing-dir', 'd.log')):
        for opts in ([], ['-U']):
            a, b = 0x4c6000 + len(groups), 0x4c6800 + len(groups)
            g = [reset(['-d', '5', '-D', dlog] + opts), run1(df11(5, a)), runn([rng.choice(nine_frames(a, rng)) for _ in range(5)]), tick(4000),
                 runn([rng.choice(nine_frames(b, rng)) for _ in range(13)]), tick(2000), runn([rng.choice(nine_frames(b, rng)) for _ in range(13)]),
                 runn([df11(5, b)])]
            groups.append(g)
    binary = vlib.build_harness('release')
    rt = realtime_crosscheck(binary)
    rep.notes.append('real-time cross-check of stamp shifting passed: %s' % rt)
    conform(rep, 'C12', groups, maxlen=3000)
    rep.rule = ('(i) every maximal path of the bounded expiry model (TLC; delete_after/depth %s; frames fed in batches of 1/10/11 so that the '
                '12-frame sweep is reached) replayed as multi-line reader runs separated by stamp shifts of D-1, D, D+1 s, with and without -U; '
                '(ii) %d random schedules over every supported format with delete_after in {1,5,60,600%s}, silences on both sides of and at '
                'the limit, runs of 1..25 frames; (iii) every format / extended-squitter kind (DF18 too) as the single frame that refreshes a row '
                'one second before it would go stale, followed by a sweep; (iv) tables of 12..40 (thorough ..100) rows overdue at once; an unwritable '
                '-D log. Judged per run: heard < delete_after ago => present; stale at run start, silent, >= 12 '
                'accepted frames => gone; stamp restarts with every accepted frame; re-heard after a sweep => fresh row. Non-trivial = run '
                'with an aircraft definitely stale or definitely fresh; distinct by (lines, slot)' %
                (cfgs, nr, ',86400' if tier == 'thorough' else ''))
    vlib.nt_floor(rep, 50)
    return rep


CHECKS['C12'] = c12



# ------------------------------------------------------------------------------------ CLI events
def cli_event(binary, prof, opts, lines, idx, timeout=120, keep_snaps=False, extra=None):
    """runs the real binary on a file of `lines` (byte lists) and builds a 'cli' trace event"""
    o = list(opts)
    quiet = 'Q' in ''.join(o[i + 1] for i in range(len(o) - 1) if o[i] == '-i')
    has_u = any(x.startswith('-u') or x.startswith('--update') for x in o)
    if not has_u:
        o += ['--update=-1']
    r = cli.run_cli(binary, o, data=b''.join(bytes(l) + b'\n' for l in lines), timeout=timeout)
    snaps = [s for s in cli.snapshots(r['out']) if 'rows' in s]
    last = snaps[-1] if snaps else None
    f = [int(o[i + 1]) for i in range(len(o) - 1) if o[i] == '-f']
    dval = 60
    for i, x in enumerate(o):
        if x == '-d':
            dval = int(o[i + 1])
        elif x.startswith('-d='):
            dval = int(x[3:])
    extra = dict(extra or {}, wall_ms=int(r['wall'] * 1000))

    def snap_rec(s):
        return {'header': cli.cps(s['header']), 'sep': cli.cps(s['sep']), 'rows': [cli.cps(x) for x in s['rows']],
                'counts': [cli.cps(s['counts'])] if s['counts'] is not None else [], 'closed': s['closed']}
    ev = {'e': 'cli', 'i': idx, 'opts': o, 'profile': prof, 'quiet': quiet,
          'args': {'f': [f] if f else [], 'd': max(-2**31 + 1, min(2**31 - 1, dval)), 'u': -1 if ('--update=-1' in o or '-u=-1' in o) else 3,
                   'c': '-c' in o or '--count-df' in o},
          'lines': lines, 'code': r['code'], 'timeout': r['code'] == -999, 'nsnaps': len(snaps),
          'stderr': r['err'][-300:].decode('utf-8', 'replace'),
          'last': [] if last is None else [snap_rec(last)]}
    if keep_snaps:
        ev['snaps'] = [snap_rec(s) for s in snaps]
    if extra:
        ev.update(extra)
    return ev


# ----------------------------------------------------------------------------------------- C16
def dialect(rng, fr):
    """the frame in one of the receiver dialects: bare, *...;  @<12-digit time stamp>...;  (the stamp's first digits look like any DF),
    lower case, blanks"""
    k = rng.randrange(6)
    if k == 0:
        return '*%s;' % fr
    if k == 1:
        return '@%s%010X%s;' % (rng.choice(['00', '07', '20', '28', '5D', '8D', '8F', 'A0', 'A8', 'FF']), rng.getrandbits(40), fr)
    if k == 2:
        return '@%012x%s;\r' % (rng.getrandbits(48), fr.lower())
    if k == 3:
        return '  %s  ' % fr.lower()
    return fr


def c16(tier):
    rep = Report('C16', tier)
    rng = random.Random(vlib.seed())
    import itertools
    dfs = [4, 5, 11, 17, 20, 21]
    subsets = [list(c) for r_ in range(0, 7) for c in itertools.combinations(dfs, r_)]
    if tier == 'quick':
        subsets = [[], [17], [4, 5], [11, 17, 20], [21], [0, 16], [18], [4, 5, 11, 17, 20, 21], [99], [5, 17],
                   [21, 4], [21, 17, 4], [20, 5, 0], [17, 17], [5, 4, 21, 20],
                   [49], [21, 49], [36, 43, 53], [1073741841]]           # numbers that are a real format modulo 32: still match nothing
    else:
        subsets += [[0], [16], [18], [0, 16, 18], [99], [17, 99], [49], [21, 49], [36, 37], [43, 52, 53], [32, 48, 50], [81], [260, 1073741841],
                    [32], [33], [63], [64], [4 + 128], [17 + 256], [20 + 65536]]
        subsets += [list(reversed(x)) for x in subsets if len(x) > 1] + [[21, 4, 17], [20, 5, 0], [17, 17], [5, 21, 4, 20]]
    # (a) the bounded model: counters = number of applied frames per DF, filtered frames change nothing
    for filt in ('NoFilt', 'F17', 'F4_5'):
        model_and_scenarios(rep, 'MC_hist', HIST_CFG.replace('Filt <- NoFilt', 'Filt <- ' + filt) % ('FALSE', 3),
                            'history model with -f %s, depth 3: InvCount (counters = applied frames per DF), filtered frames leave all variables unchanged' % filt,
                            emit=False, workers=8)
    # (b) in-process: every line judged (filtered frame => table untouched)
    groups = []
    for fs in subsets:
        opts = []
        for d in fs:
            opts += ['-f', str(d)]
        acs = [0x4d1000 + rng.getrandbits(8) for _ in range(3)]
        pool = []
        for a in acs:
            pool += nine_frames(a, rng)
        pool += nine_frames(0, rng)
        # (-M, the message log, looks at every frame before the filter does: it must not act as a filter itself)
        mopt = [[], ['-M', '17'], ['-M', '4', '-M', '21'], ['-M', '99']][len(groups) % 4]
        g = [reset(opts + mopt + (['-U'] if len(fs) % 2 else []))]
        for _ in range(40 if tier == 'quick' else 200):
            g.append(run1(dialect(rng, rng.choice(pool))))
        groups.append(g)
    for k in range(6 if tier == 'quick' else 60):
        a_, b_ = 0x4d1800 + k, 0x4d1900 + k
        fl = rng.choice([[17], [4, 17], [11]])
        opts = []
        for d in fl:
            opts += ['-f', str(d)]
        keep = df17(5, a_, me_ident(4, 1, callsign_codes('KEEP'))) if 17 in fl else df11(5, a_)
        others = [l for l in nine_frames(b_, rng) if (int(l[:2], 16) >> 3) not in fl]
        g = [reset(opts + ['-d', '60'] + (['-U'] if k % 2 else [])), run1(keep), tick(120000), runn([rng.choice(others) for _ in range(40)])]
        groups.append(g)
    conform(rep, 'C16', groups, maxlen=3000)
    # (c) the CLI with -c: counter line and table of the last refresh
    events = []
    for prof in (('release',) if tier == 'quick' else ('release', 'dev')):
        binary = vlib.build_cli(prof)
        for k, fs in enumerate(subsets):
            for withc in (True, False) if k % 3 == 0 else (True,):
                opts = (['-c'] if withc else [])
                for d in fs:
                    opts += ['-f', str(d)]
                if k % 2:
                    opts.append('-U')
                acs = [0x4d2000 + rng.getrandbits(8) for _ in range(4)]
                pool = []
                for a in acs:
                    pool += nine_frames(a, rng)
                pool += nine_frames(0, rng) + [F.flip(df17(5, acs[0], me_opstatus(1)), [50]), 'zz', '8D', df11(5, acs[1], 5)[:13]]
                for dfx in (24, 25, 30, 31, 19, 22):    # other 112-bit formats: counted under their own DF number
                    pool.append(hexs(pack([(dfx, 5), (rng.getrandbits(3), 3), (acs[2], 24)]) + bits_of(rng.getrandbits(80), 80)))
                lines = [list(dialect(rng, rng.choice(pool)).encode()) for _ in range(rng.randrange(5, 60 if tier == 'quick' else 400))]
                events.append(cli_event(binary, prof, opts, lines, len(events) + 1))
        # a narrow table (-i without any group) and a counter line much wider than it: every one of the 32 formats, counts of 2 and 3 digits
        for k in range(2 if tier == 'quick' else 12):
            acs = [0x4d2800 + rng.getrandbits(8) for _ in range(3)]
            pool = []
            for a in acs:
                pool += nine_frames(a, rng)
            for dfx in range(32):
                if dfx not in (0, 4, 5, 11, 16, 17, 18, 20, 21):
                    # both readings of the address non-zero, so that the frame counts whichever the code uses
                    pool.append(hexs(with_ap(pack([(dfx, 5), (rng.getrandbits(3), 3), (acs[0], 24)]) + (bits_of(rng.getrandbits(56), 56) if dfx >= 16 else []), acs[1])))
            lines = [list(rng.choice(pool).encode()) for _ in range(rng.randrange(500, 900))]
            events.append(cli_event(binary, prof, ['-c', '-i', 'x'] + (['-U'] if k % 2 else []), lines, len(events) + 1))
    # the counter line and the set of rows after EVERY frame (one refresh per frame with --update=-1), streams of the nine formats
    cbr = vlib.build_cli('release')
    for k in range(6 if tier == 'quick' else 60):
        fs = [[17], [4, 5], [11, 17, 20], [21], [5, 17, 0, 16], [20, 21, 49]][k % 6]
        opts = ['-c'] + [x for d in fs for x in ('-f', str(d))] + (['-U'] if k % 2 else []) + [[], ['-M', '17'], ['-M', '5', '-M', '20']][k % 3]
        pool = []
        for a in [0x4d3000 + rng.getrandbits(8) for _ in range(3)]:
            pool += nine_frames(a, rng)
        pool += nine_frames(0, rng)[:4] + ['zz', '8D']
        lines = [list(dialect(rng, rng.choice(pool)).encode()) if ln else list(ln.encode()) for ln in [rng.choice(pool) for _ in range(rng.randrange(10, 50))]]
        e = cli_event(cbr, 'release', opts, lines, len(events) + 1, keep_snaps=True)
        e['e'] = 'clistream'
        e['args']['U'] = '-U' in opts
        e['args']['R'] = False
        e.pop('last', None)
        events.append(e)
    tr = os.path.join(vlib.workdir(), 'c16cli.trace.ndjson')
    vlib.write_ndjson(tr, events)
    rep.add_validation(vlib.validate([tr], 'C16'))
    rep.extra['cli_runs'] = len(events)
    rep.rule = ('streams mixing all nine formats for 3-4 aircraft, address-zero frames and rejected lines, under -f subsets %s: in-process every '
                'line is judged (frame of an unlisted format => table untouched); the real CLI is run with --update=-1 [-c] and TLC recomputes '
                'from the input lines the expected "DFn:count" line (ascending DF, applied frames only) and the expected set of aircraft of '
                'the last refresh (lines in the receiver dialects: bare, *;, @time-stamp; whose first digits look like any DF; a narrow table with all 32 '
                'formats and counts of several digits); and, refresh by refresh, the counter line and the set of rows after every single frame. Non-trivial = accepted frame under a filter / CLI run with at least one applied frame' %
                ('(all 64 subsets of {4,5,11,17,20,21} and unsupported numbers)' if tier == 'thorough' else str(subsets)))
    vlib.nt_floor(rep, 100)
    return rep


CHECKS['C16'] = c16



# ------------------------------------------------------------------------------------ C14 / C15
def blank_row(a):
    return {'a': a, 'ca': 0, 'caps': [0, 0, 0, 0, 0, 0], 'cat': [0, 0], 'reg': '??', 'regcp': cli.cps('??'), 'cs': [], 'alt': [], 'altg': [],
            'alts': 32, 'sel': [], 'baro': [], 'sels': 32, 'sq': [], 'ss': 32, 'thr': [], 'vr': [], 'vrs': 32, 'lat': 0, 'lon': 0, 'dist': [],
            'gs': [], 'tas': [], 'ias': [], 'mach': [], 'gm': [], 'trk': [], 'trks': 32, 'hdg': [], 'hdgs': 32, 'roll': [], 'tar': [],
            'temp': [], 'wind': [], 'turb': [], 'hum': [], 'pres': [], 'ts': 0, 'pts': [], 'tts': [], 'hts': [], 'ltc': 0, 'ldf': 0, 'ver': []}


def filled_row(a, kind, rng):
    r = blank_row(a)
    if kind == 'min':
        r.update({'reg': 'A', 'regcp': cli.cps('A'), 'cs': [cli.cps('A')], 'alt': [0], 'altg': [0], 'sel': [0], 'baro': [0], 'sq': [0], 'vr': [0],
                  'lat': 10, 'lon': 10, 'dist': [0], 'gs': [0], 'tas': [0], 'ias': [0], 'mach': [0], 'trk': [0], 'hdg': [0], 'roll': [0], 'tar': [0],
                  'temp': [0], 'wind': [[0, 0]], 'turb': [0], 'hum': [0], 'pres': [0], 'ts': 0, 'pts': [0], 'tts': [0], 'hts': [0], 'ltc': 1, 'ldf': 4,
                  'ver': [0], 'cat': [1, 0], 'ss': 78})
    elif kind == 'max':
        r.update({'reg': 'ZZ', 'regcp': cli.cps('ZZ'), 'cs': [cli.cps('ZZZZ9999')], 'alt': [99999], 'altg': [99999], 'sel': [65520], 'baro': [1210],
                  'sq': [7777], 'vr': [32640], 'lat': 89999990, 'lon': 179999990, 'dist': [999900], 'gs': [999], 'tas': [999], 'ias': [999],
                  'mach': [9990], 'trk': [359], 'hdg': [359], 'roll': [999], 'tar': [999], 'temp': [99990], 'wind': [[999, 359]], 'turb': [15],
                  'hum': [100], 'pres': [2048], 'ts': 98000, 'pts': [150000], 'tts': [90000], 'hts': [10000], 'ltc': 31, 'ldf': 21, 'ver': [2],
                  'cat': [4, 7], 'ss': 83, 'thr': [0x2072], 'alts': 0x2070, 'sels': 0x2081, 'vrs': 0x2086, 'trks': 0x2085, 'hdgs': 0x2083})
    elif kind == 'neg':
        r.update({'reg': 'IE', 'regcp': cli.cps('IE'), 'cs': [cli.cps('EIN12')], 'alt': [25], 'vr': [-9984], 'lat': -89999990, 'lon': -179999990,
                  'dist': [100], 'roll': [-50], 'tar': [-16], 'temp': [-8000], 'ts': 5000, 'cat': [4, 3], 'sq': [7], 'mach': [820], 'gs': [5], 'trk': [7]})
    else:   # random, all values fit
        r.update({'reg': rng.choice(['US', 'DE', 'IE', '??', 'G']), 'cs': [cli.cps(''.join(rng.choice('ABCXYZ0189') for _ in range(rng.randrange(0, 9))))] if rng.random() < .7 else [],
                  'alt': [rng.randrange(0, 60000)] if rng.random() < .7 else [], 'altg': [rng.randrange(0, 60000)] if rng.random() < .5 else [],
                  'sel': [16 * rng.randrange(0, 3000)] if rng.random() < .5 else [], 'baro': [rng.randrange(800, 1211)] if rng.random() < .5 else [],
                  'sq': [rng.choice([0, 7, 77, 1000, 1234, 7700, 7777])] if rng.random() < .7 else [],
                  'vr': [64 * rng.randrange(-150, 151)] if rng.random() < .6 else [], 'gs': [rng.randrange(0, 1000)] if rng.random() < .6 else [],
                  'tas': [rng.randrange(0, 1000)] if rng.random() < .5 else [], 'ias': [rng.randrange(0, 1000)] if rng.random() < .5 else [],
                  'mach': [10 * rng.randrange(0, 100)] if rng.random() < .5 else [], 'trk': [rng.randrange(0, 360)] if rng.random() < .6 else [],
                  'hdg': [rng.randrange(0, 360)] if rng.random() < .5 else [], 'roll': [rng.randrange(-50, 51)] if rng.random() < .5 else [],
                  'tar': [rng.randrange(-16, 17)] if rng.random() < .5 else [], 'temp': [10 * rng.randrange(-800, 600)] if rng.random() < .4 else [],
                  'wind': [[rng.randrange(0, 300), rng.randrange(0, 360)]] if rng.random() < .4 else [], 'turb': [rng.randrange(0, 16)] if rng.random() < .4 else [],
                  'hum': [rng.randrange(0, 101)] if rng.random() < .4 else [], 'pres': [rng.randrange(0, 2049)] if rng.random() < .4 else [],
                  'ts': rng.randrange(0, 90000), 'pts': [rng.randrange(0, 200000)] if rng.random() < .5 else [],
                  'tts': [rng.randrange(0, 200000)] if rng.random() < .5 else [], 'hts': [rng.randrange(0, 200000)] if rng.random() < .5 else [],
                  'ltc': rng.randrange(0, 32), 'ldf': rng.choice([0, 4, 5, 11, 17, 20, 21]), 'ver': [rng.randrange(0, 3)] if rng.random() < .5 else [],
                  'cat': [rng.randrange(0, 5), rng.randrange(0, 8)], 'ss': rng.choice([32, 78, 80, 84, 83])})
        r['regcp'] = cli.cps(r['reg'])
        if rng.random() < .7:
            r['lat'] = 10 * rng.randrange(-8999999, 9000000); r['lon'] = 10 * rng.randrange(-17999999, 18000000)
            if rng.random() < .8:
                r['dist'] = [100 * rng.randrange(0, 10000)]
        for mk in ('alts', 'sels', 'vrs', 'trks', 'hdgs'):
            r[mk] = rng.choice([32, 32, 0x2070, 0x2081, 0x2085, 0x2086, 34, 95])
        if rng.random() < .2:
            r['thr'] = [rng.choice([0x2071, 0x2072])]
    return r


def run_print(binary, cases, name):
    """cases: list of dict(id, i, o, rows). Returns 'print' events."""
    import subprocess
    wd = vlib.workdir()
    cf_ = os.path.join(wd, name + '.cases.ndjson')
    vlib.write_ndjson(cf_, cases)
    p = subprocess.run([binary, 'print', cf_], stdout=subprocess.PIPE, stderr=subprocess.PIPE, timeout=1200)
    if p.returncode != 0:
        raise ToolError('sqv print failed: %s' % p.stderr[-1000:].decode('utf-8', 'replace'))
    out = p.stdout.decode('utf-8', 'replace').split('\n')
    blocks, cur = {}, None
    for l in out:
        if l.startswith('@@CASE '):
            cur = int(l.split()[1]); blocks[cur] = []
        elif l.startswith('@@END '):
            cur = None
        elif cur is not None:
            blocks[cur].append(l)
    events = []
    for c in cases:
        b = blocks.get(c['id'])
        if b is None or len(b) < 2:
            raise ToolError('print case %s produced no output' % c['id'])
        events.append({'e': 'print', 'i': len(events) + 1, 'flags': cli.cps(c['i']), 'order': cli.cps(c.get('o_eff', c['o'])), 'rows': c['rows'],
                       'header': cli.cps(b[0]), 'sep': cli.cps(b[1]), 'lines': [cli.cps(x) for x in b[2:]]})
    return events


def cli_table_events(rng, n, orders):
    """'print' events whose text is the last refresh of the real CLI and whose rows are the implementation's own table
    (in-process run of the same lines)"""
    binary = vlib.build_cli('release')
    hb = vlib.build_harness('release')
    events = []
    for k in range(n):
        flags = rng.choice(all_flagsets())
        order = orders[k % len(orders)]
        base = rng.choice([[], ['-U'], ['-R', '-U']])
        pool = []
        for a in [0x480000 + rng.getrandbits(12) for _ in range(rng.randrange(1, 6))]:
            pool += other_format_frames(a, rng) + valid_value_frames(a, rng)
        lines = [rng.choice(pool) for _ in range(rng.randrange(10, 80))]
        obs = '53.0,-8.0'
        opts = base + ['--observer-coord=' + obs, '-i', flags, '-o', order]
        r = cli.run_cli(binary, opts + ['--update=-1'], data=''.join(l + '\n' for l in lines).encode(), timeout=60)
        snaps = [s_ for s_ in cli.snapshots(r['out']) if 'rows' in s_]
        if r['code'] != 0 or not snaps:
            raise ToolError('CLI run failed for table comparison: code %s' % r['code'])
        tr = vlib.sqv_exec(hb, [{'c': 'reset', 'opts': ['-i', 'Q'] + base + ['--observer-coord=' + obs], 'slot': 0}] +
                           [run1(l) for l in lines] + [{'c': 'dump'}], 'clitab%d' % k)
        dump = [e for e in vlib.read_ndjson(tr) if e['e'] == 'dump'][-1]
        rows = []
        for x in dump['rows']:
            row = x['row']
            for f_ in ('pts', 'tts', 'hts'):
                row[f_] = [dump['now'] - row[f_][0]] if row[f_] else []
            row['ts'] = dump['now'] - row['ts']
            rows.append(row)
        last = snaps[-1]
        events.append({'e': 'print', 'i': len(events) + 1, 'flags': cli.cps(flags), 'order': cli.cps(order), 'rows': rows,
                       'header': cli.cps(last['header']), 'sep': cli.cps(last['sep']), 'lines': [cli.cps(x) for x in last['rows']]})
    return events



def cli_pair_events(rng, n):
    """two runs of the real binary on the same input whose option sets differ in one option (separate processes: the
    observer and the logger are process-global); last refresh of each"""
    binary = vlib.build_cli('release')
    wd = vlib.workdir()
    events = []
    variants = [('O', ['--observer-coord=52.25,3.92'], ['--observer-coord=-45,170']),      # on top of the traffic / on the far side of the globe
                ('O', ['--observer-coord=52.0,-8.0'], ['--observer-coord=35.7,139.7']),
                ('O', ['--observer-coord=-33.9,151.2'], ['--observer-coord=64.1,-21.9']),
                # a value -O cannot make sense of leaves the process without an observer: no distance, everything else as before (round 12)
                ('O', ['--observer-coord=52.0,-8.0'], ['--observer-coord=52.66N 8.62W']),
                ('O', [], ['--observer-coord=nowhere']),
                ('l', [], ['-l', os.path.join(wd, 'err.log'), '-M', '17', '-M', '4']),
                ('M', [], ['-M', '17', '-M', '20']),
                ('D', [], ['-D', os.path.join(wd, 'dl.log')]),
                ('c', [], ['-c'])]
    for k in range(n):
        name, oa, ob = variants[k % len(variants)]
        base = rng.choice([[], ['-U'], ['-R']]) + ['-i', rng.choice(['aAews', 'e', 'A'])]
        pool = []
        for a in [0x484000 + rng.getrandbits(10) for _ in range(3)]:
            pool += other_format_frames(a, rng) + valid_value_frames(a, rng)
            lat, lon = rng.uniform(-60, 60), rng.uniform(-170, 170)
            for odd in (0, 1, 0):
                y, x = cpr_encode(lat, lon, odd)
                pool.append(df17(5, a, me_surface(7, 20, 1, 40, odd, y or 1, x or 1)))
        lines = [rng.choice(pool) for _ in range(rng.randrange(20, 80))]
        # a complete surface-position pair (and an airborne one) of a further aircraft, contiguous
        a2 = 0x485000 + k
        lat, lon = rng.uniform(-60, 60), rng.uniform(-170, 170)
        blk = []
        for odd in (0, 1, 0):
            y, x = cpr_encode(lat, lon, odd)
            blk.append(df17(5, a2, me_surface(7, 20, 1, 40, odd, y or 1, x or 1)))
        for odd in (1, 0):
            y, x = cpr_encode(lat + 0.001, lon, odd)
            blk.append(df17(5, a2 + 0x100, me_airpos(11, 0, enc_alt12(2000), odd, y or 1, x or 1)))
        at = rng.randrange(len(lines) + 1)
        lines[at:at] = blk
        # an aircraft with a complete airborne pair right where the first -O variant puts its observer
        a3 = 0x486000 + k
        lines += [df17(5, a3, me_airpos(11, 0, enc_alt12(3000), odd, *cpr_encode(52.2572 + 0.0004 * odd, 3.9194, odd))) for odd in (0, 1, 0)]
        data = ''.join(l + '\n' for l in lines).encode()
        ra = cli.run_cli(binary, base + oa + ['--update=-1'], data=data, timeout=60)
        rb = cli.run_cli(binary, base + ob + ['--update=-1'], data=data, timeout=60)
        sa = [x for x in cli.snapshots(ra['out']) if 'rows' in x]
        sb = [x for x in cli.snapshots(rb['out']) if 'rows' in x]
        if not sa or not sb:
            raise ToolError('CLI pair produced no refresh (codes %s %s)' % (ra['code'], rb['code']))
        events.append({'e': 'clipair', 'i': len(events) + 1, 'opt': name, 'optsA': base + oa, 'optsB': base + ob,
                       'lines': [list(l.encode()) for l in lines], 'codeA': ra['code'], 'codeB': rb['code'],
                       'headerA': cli.cps(sa[-1]['header']), 'sepA': cli.cps(sa[-1]['sep']), 'rowsA': [cli.cps(x) for x in sa[-1]['rows']],
                       'headerB': cli.cps(sb[-1]['header']), 'sepB': cli.cps(sb[-1]['sep']), 'rowsB': [cli.cps(x) for x in sb[-1]['rows']]})
    return events


def all_flagsets():
    out = []
    for m in range(32):
        out.append(''.join(ch for k, ch in enumerate('aAews') if m >> k & 1))
    return out


def c14(tier):
    rep = Report('C14', tier, level='exploration')
    rng = random.Random(vlib.seed())
    binary = vlib.build_harness('release')
    cases = []
    n_rand = 4 if tier == 'quick' else 40
    for fs in all_flagsets():
        rows = [blank_row(0x100001), filled_row(0x200002, 'min', rng), filled_row(0xA00003, 'max', rng), filled_row(0x4CA004, 'neg', rng)]
        rows += [filled_row(0x300000 + k, 'rand', rng) for k in range(n_rand)]
        # each-field-varies rows: one field set on an otherwise blank row
        full = filled_row(0x500000, 'max', rng)
        for k, fld in enumerate(['cs', 'alt', 'altg', 'sel', 'baro', 'sq', 'vr', 'dist', 'gs', 'tas', 'ias', 'mach', 'trk', 'hdg', 'roll', 'tar', 'temp',
                                 'wind', 'turb', 'hum', 'pres', 'ver', 'pts', 'tts', 'hts']):
            r = blank_row(0x600000 + k)
            r[fld] = full[fld]
            rows.append(r)
        # addresses with leading zero digits (six hexadecimal digits, always)
        for a_ in (0x00A1B2, 0x000001, 0x0FFFFF, 0x012345):
            r = blank_row(a_); r['alt'] = [a_ % 40000]; rows.append(r)
        # the threat flag with and without a squawk next to it
        r = blank_row(0x6000fd); r['thr'] = [0x2071]; rows.append(r)
        r = blank_row(0x6000fc); r['thr'] = [0x2072]; r['sq'] = [7700]; rows.append(r)
        r = blank_row(0x6000fb); r['sq'] = [1]; rows.append(r)
        r = blank_row(0x6000ff); r['lat'] = 52123450; r['lon'] = -8123450; rows.append(r)
        r = blank_row(0x6000fe); r['lat'] = 52123450; rows.append(r)            # latitude only: no position shown
        # values that do not fit their column (layout promise does not apply, cells unconstrained)
        r = filled_row(0x700001, 'max', rng); r['dist'] = [12345600]; r['reg'] = 'ICAO1'; r['regcp'] = cli.cps('ICAO1'); rows.append(r)
        cases.append({'id': len(cases), 'i': fs, 'o': rng.choice(['', 'sA', 'N', 'zz']), 'rows': rows})
    # quiet flag and unknown letters mixed in
    cases.append({'id': len(cases), 'i': 'xyzA', 'o': '', 'rows': [filled_row(0x200002, 'min', rng)]})
    # a letter given more than once (several -i options are concatenated) still means its own group, no other
    for fs in ['ee', 'aa', 'AA', 'ss', 'ww', 'aAae', 'wwaa', 'eeee', 'sss', 'aAewsaAews', 'AeA', 'waw', 'eaae']:
        cases.append({'id': len(cases), 'i': fs, 'o': '', 'rows': [filled_row(0x200002, 'min', rng), filled_row(0xA00003, 'max', rng), blank_row(0x100001)]})
    events = run_print(binary, cases, 'c14')
    tr = os.path.join(vlib.workdir(), 'c14.trace.ndjson')
    vlib.write_ndjson(tr, events)
    rep.add_validation(vlib.validate([tr], 'C14'))
    # CLI route: real decoding + real stdout; the expected row values are the implementation's own table (in-process, same input)
    cli_events = cli_table_events(rng, 3 if tier == 'quick' else 40, ['sA', 'N', 'a', 'dV', ''])
    tr2 = os.path.join(vlib.workdir(), 'c14cli.trace.ndjson')
    vlib.write_ndjson(tr2, cli_events)
    rep.add_validation(vlib.validate([tr2], 'C14'))
    rep.extra['cli_refreshes_checked'] = len(cli_events)
    rows_checked = sum(len(c['rows']) for c in cases)
    rep.extra['rows_rendered'] = rows_checked
    rep.rule = ('all 32 combinations of the -i groups x %d table rows each (all-blank, all-min, all-max with every source marker, negatives, one-field-only '
                'rows for every optional column, the threat flag with and without a squawk, position with one zero coordinate, %d random rows whose values all fit, and rows with values that do '
                'not fit), built through the public Plane fields and printed by the real LegendHeaders / Planes::print; TLC parses the columns from the '
                'printed header + separator and checks every cell, the line width, and group presence <=> flag; also -i strings with repeated letters. Non-trivial = refresh with rows; '
                'distinct by (flags, rows)' % (len(cases[0]['rows']), n_rand))
    rep.nontrivial = set('%s-%d' % (c['i'], c['id']) for c in cases)
    vlib.nt_floor(rep, 30)
    return rep


def c15(tier):
    rep = Report('C15', tier, level='exploration')
    rng = random.Random(vlib.seed())
    binary = vlib.build_harness('release')
    keys = 'saAvVNSWEdDc'
    orders = [''] + list(keys) + ['z', 'zz', 'Q'] + [a + b for a in 'saANd' for b in 'sAVWc'] + ['sz', 'zs', 'Az', 'xNy'] + \
             ['sAs', 'aNa', 'AsA', 'sas', 'NsAN', 'asA', 'Asa', 'sxAxs', 'aaA', 'AAa'] + \
             ['sS', 'Ss', 'cC', 'Cc', 'wW', 'Ww', 'eE', 'Ee', 'nN', 'Nn', 'dD', 'Dd', 'aA', 'Aa', 'vV', 'Vv', 'xX', 'zZs']
    if tier == 'thorough':
        orders += [a + b for a in keys for b in keys]
    cases = []
    vals = {'sq': [[], [0], [1200], [7700]], 'alt': [[], [0], [1000], [35000]], 'vr': [[], [-640], [0], [640]],
            'lat': [0, -33500000, 52100000, 52900000, 53400000], 'lon': [0, -8600000, -8100000, 3900000, 151000000],
            'dist': [[], [100], [900], [1500], [250000]], 'cat': [[0, 0], [4, 1], [4, 3], [2, 7]]}
    ntab = 3 if tier == 'quick' else 30
    for o in orders:
        for t in range(ntab):
            n = rng.randrange(1, 7)
            rows = []
            addrs = rng.sample(range(1, 0xFFFFFF), n)
            for a in addrs:
                r = blank_row(a)
                r['sq'] = rng.choice(vals['sq']); r['alt'] = rng.choice(vals['alt']); r['vr'] = rng.choice(vals['vr'])
                r['lat'] = rng.choice(vals['lat']); r['lon'] = rng.choice(vals['lon']) if r['lat'] else 0
                if r['lat'] and not r['lon']:
                    r['lat'] = 0
                r['dist'] = rng.choice(vals['dist']); r['cat'] = rng.choice(vals['cat'])
                rows.append(r)
            cases.append({'id': len(cases), 'i': rng.choice(['', 'aAews', 'e']), 'o': o, 'rows': rows})
    cats = [[0, 0], [1, 0], [2, 1], [2, 7], [3, 1], [3, 6], [3, 7], [4, 0], [4, 3], [4, 7]]
    for t in range(6 if tier == 'quick' else 60):
        rows = []
        for a in rng.sample(range(1, 0xFFFFFF), rng.randrange(4, 9)):
            r = blank_row(a); r['cat'] = rng.choice(cats); r['sq'] = rng.choice(vals['sq']); rows.append(r)
        cases.append({'id': len(cases), 'i': 'e', 'o': rng.choice(['c', 'sc', 'Ac', 'c']), 'rows': rows})
    for o in 'vVNSWEdD':
        for t in range(3 if tier == 'quick' else 20):
            rows = []
            for a in rng.sample(range(1, 0xFFFFFF), rng.randrange(4, 9)):
                r = blank_row(a)
                r['vr'] = [64 * rng.randrange(-40, 41)] if rng.random() < .8 else []
                r['lat'] = 10 * rng.randrange(-8000000, 8000000); r['lon'] = 10 * rng.randrange(-17000000, 17000000)
                r['dist'] = [100 * rng.randrange(0, 9000)] if rng.random() < .8 else []
                rows.append(r)
            cases.append({'id': len(cases), 'i': '', 'o': o, 'rows': rows})
    # finely spaced keys in an order that opposes the address order (a key reduced to a coarser unit would tie them)
    for o in ('a', 'A', 's', 'v', 'V', 'd', 'D', 'N', 'S', 'W', 'E', 'sa', 'As'):
        for t in range(2 if tier == 'quick' else 10):
            n = rng.randrange(4, 8)
            addrs = sorted(rng.sample(range(1, 0xFFFFFF), n))
            base_alt = rng.randrange(1000, 40000, 25)
            rows = []
            for j, a in enumerate(addrs):
                r = blank_row(a)
                r['alt'] = [base_alt + 25 * (n - j)]; r['sq'] = [1000 + (n - j)]; r['vr'] = [64 * (n - j) - 128]
                r['lat'] = 52000000 + 10 * (n - j); r['lon'] = -8000000 - 10 * (n - j); r['dist'] = [100 * (n - j)]
                rows.append(r)
            if t % 2:
                rng.shuffle(rows)
            cases.append({'id': len(cases), 'i': 'e', 'o': o, 'rows': rows})
    # a row is a row until the sweep removes it: tables in which some rows are older than delete_after (default 60 s, and -d 2 / -d 0)
    for t in range(6 if tier == 'quick' else 60):
        rows = []
        for a in rng.sample(range(1, 0xFFFFFF), rng.randrange(3, 8)):
            r = blank_row(a); r['sq'] = [rng.choice([7, 1200, 4321, 7500, 7600, 7700, 7777])]; r['alt'] = [rng.randrange(0, 40000, 25)]
            r['ts'] = rng.choice([0, 1000, 3000, 59000, 61000, 200000])
            rows.append(r)
        cases.append({'id': len(cases), 'i': rng.choice(['', 'e']), 'o': rng.choice(['s', 'a', 'sA', 'As']), 'rows': rows,
                      'argv': [[], ['-d', '2'], ['-d', '0']][t % 3]})
    # -o given several times: the option values are concatenated, the last recognised letter of all of them decides
    for first, rest in (('s', ['a']), ('a', ['s']), ('A', ['s', 'N']), ('N', ['zz', 'a']), ('s', ['A', 'x']), ('d', ['s'])):
        for t in range(2 if tier == 'quick' else 10):
            rows = []
            for a in rng.sample(range(1, 0xFFFFFF), rng.randrange(4, 8)):
                r = blank_row(a); r['sq'] = rng.choice(vals['sq'][1:]); r['alt'] = [rng.randrange(0, 40000, 25)]
                r['lat'] = 10 * rng.randrange(-8000000, 8000000); r['lon'] = 10 * rng.randrange(-17000000, 17000000)
                rows.append(r)
            cases.append({'id': len(cases), 'i': '', 'o': first, 'o_eff': first + ''.join(rest), 'rows': rows, 'argv': [x for o_ in rest for x in ('-o', o_)]})
    events = run_print(binary, cases, 'c15')
    for e in cli_table_events(rng, 4 if tier == 'quick' else 60, ['sA', 'N', 'a', 'dV', '', 'W', 'v', 'c', 'A', 'zz']):
        e['i'] = len(events) + 1
        events.append(e)
    tr = os.path.join(vlib.workdir(), 'c15.trace.ndjson')
    vlib.write_ndjson(tr, events)
    rep.add_validation(vlib.validate([tr], 'C15'))
    rep.nontrivial = set('%s-%d' % (c['o'], c['id']) for c in cases if len(c['rows']) > 1)
    rep.rule = ('%d tables of 1..6 rows over small value sets with blanks and ties (squawk, altitude, vertical rate, latitude/longitude within one '
                'degree of each other, distances within 1 km, categories) x -o strings: empty, every key letter, unrecognised letters, %s; printed by '
                'the real Planes::print. TLC checks: every aircraft exactly once; rows with a non-blank key monotone in the last recognised key '
                '(s, a ascending, A descending, others either way); no recognised key => ascending address. Non-trivial = table with > 1 row' %
                (len(cases), 'all two-letter combinations' if tier == 'thorough' else '29 two-letter combinations'))
    vlib.nt_floor(rep, 50)
    return rep


CHECKS['C14'] = c14
CHECKS['C15'] = c15



# ----------------------------------------------------------------------------------------- C18
def c18(tier):
    import itertools, concurrent.futures as cf
    import tcp
    rep = Report('C18', tier)
    r = vlib.tlc_model('MC_tcp', workers=8, timeout=1200)
    rep.add_model(r, 'TCP life-cycle model: all scripts of <= 3 faults over {refuse, close, frames, partial+reset, partial+close, junk} then a healthy connection: '
                     'ConnKeepsTable, NoLoss, PauseRespected (safety) and Recovers (liveness under weak fairness)')
    if tier == 'thorough':
        r = vlib.tlc_model('MC_tcp', cfg='MC_tcp_deep.cfg', workers=8, timeout=1800)
        rep.add_model(r, 'the same model with scripts of <= 5 faults (9 331 scripts, clock to 32 s): the same four properties')
    apalache_ind(rep, 'C18', 'TcpInd', 'any number and order of faults, unbounded clock, Pause in 1..100000: nothing learned is lost, what a '
                 'connection delivered is in the table while it is up, no attempt sooner than Pause after a refused one')
    binary = vlib.build_cli('release')
    if tier == 'quick':
        seqs = [('refuse',), ('close',), ('frames', 'partial'), ('junk', 'refuse'), ('partial', 'frames'), ('frames', 'close', 'junk'),
                ('refuse', 'refuse'), ('partial', 'partial', 'junk'), ('partialfin',), ('frames', 'partialfin', 'refuse'), ('partialfin', 'partialfin'),
                ('close', 'close', 'partialfin'),       # (the three kinds of partial line rotate with the connection number)
                ('long', 'refuse'), ('long', 'close'),      # a connection that outlives delete_after (-d 8), then an outage
                ('frames',) + ('refuse',) * 7]              # an outage of half a minute: the decoder never gives up
    else:
        seqs = [s for n in (1, 2, 3) for s in itertools.product(tcp.FAULTS, repeat=n)]
        seqs += [('long', 'refuse'), ('long', 'close'), ('long', 'refuse', 'refuse'), ('frames', 'long', 'partial'), ('long', 'junk', 'refuse'),
                 ('frames',) + ('refuse',) * 7, ('refuse',) * 9, ('junk',) + ('refuse',) * 6 + ('close',)]
    events = []
    with cf.ThreadPoolExecutor(max_workers=16) as ex:
        futs = [ex.submit(tcp.run_scenario, binary, s, i + 1) for i, s in enumerate(seqs)]
        events = [f.result() for f in futs]
    tr = os.path.join(vlib.workdir(), 'tcp.trace.ndjson')
    vlib.write_ndjson(tr, events)
    rep.add_validation(vlib.validate([tr], 'C18'), key_fn=lambda e: tuple(e['faults']))
    rep.samples = [{'faults': e['faults'], 'accept_times_ms': [c['t_accept'] for c in e['conns']], 'alive': e['alive']} for e in events[:3]]
    rep.extra['fault_sequences'] = len(seqs)
    rep.rule = ('%s, each followed by a healthy connection, played by a loopback peer against the real release binary (-t 127.0.0.1:port '
                '--update=-1); recorded: accept times, bytes sent, close/reset, last refresh, process liveness. TLC checks: one accept per non-refused '
                'script element and the healthy one, gap after n refusals within [5n-0.5, 5n+4] s, prompt reconnect (< 4.5 s) after close/reset, '
                'process alive, last refresh lists exactly the aircraft whose complete frames were delivered on any connection (partial lines and junk '
                'contribute nothing and break nothing). Non-trivial = sequence with at least one fault; distinct by fault sequence' %
                ('15 fault sequences (two with a connection that outlives delete_after, one with seven refusals in a row)' if tier == 'quick' else 'all 258 fault sequences of length <= 3 over 6 fault kinds and 5 with a connection that outlives delete_after'))
    vlib.nt_floor(rep, 5)
    return rep


CHECKS['C18'] = c18



# ----------------------------------------------------------------------------------------- drift
def drift(tier='quick'):
    """Not a property check: validates traces under Prop = DRIFT, i.e. the implementation-shaped part of the specification
    (fields no property owns).  Mismatches are listed as model drift; always exits 0."""
    rep = Report('DRIFT', tier)
    rng = random.Random(vlib.seed())
    groups = []
    rec = recorded_lines('squitters.txt', 20000 if tier == 'quick' else 100000)
    for k in range(16 if tier == 'quick' else 64):
        opts = OPTSETS[k % 4]
        st = rng.randrange(0, len(rec) - 800)
        groups.append([reset(opts)] + [run1(l) for l in rec[st:st + 600]])
    for k in range(16):
        acs = [0x4e0000 + rng.getrandbits(10) for _ in range(3)]
        pool = []
        for a in acs:
            pool += other_format_frames(a, rng) + valid_value_frames(a, rng)
            for st_ in (3, 4):
                pool.append(df17(5, a, me_velocity(st_, 1, rng.getrandbits(10), 0, rng.getrandbits(10), 1, rng.getrandbits(9), dif=rng.getrandbits(7), sdif=rng.getrandbits(1))))
            pool.append(df17(5, a, me_surface(rng.randint(5, 8), rng.getrandbits(7), rng.getrandbits(1), rng.getrandbits(7), rng.getrandbits(1), rng.getrandbits(17), rng.getrandbits(17))))
            pool.append(df17(5, a, me_velocity(1, 0, 100, 0, 100, 0, 5, dif=rng.randint(1, 127), sdif=1)))
            pool.append(short(4, rng.getrandbits(13) | 0x40, a))
            pool.append(long_(20, rng.getrandbits(13) | 0x40, mb40(100, 200, 300, src=rng.getrandbits(2), st54=rng.getrandbits(1)), a))
            pool.append(long_(21, rng.getrandbits(13), mb40(100, 200, 300, src=rng.getrandbits(2), st54=1), a))
        g = [reset(OPTSETS[k % 4])]
        for _ in range(300):
            g.append(run1(rng.choice(pool)))
        groups.append(g)
    shards = chunk(groups, 4000)
    binary = vlib.build_harness('release')
    traces = vlib.exec_shards(binary, shards, 'drift-')
    # the CLI: one refresh per applied frame under --update=-1
    cb = vlib.build_cli('release')
    evs = []
    for k in range(6):
        pool = []
        for a in [0x4e8000 + rng.getrandbits(8) for _ in range(3)]:
            pool += nine_frames(a, rng)
        pool += nine_frames(0, rng) + ['zz', '8D']
        lines = [list(rng.choice(pool).encode()) for _ in range(rng.randrange(5, 60))]
        evs.append(cli_event(cb, 'release', (['-f', '17', '-f', '4'] if k % 2 else []) + (['-c'] if k % 3 == 0 else []), lines, len(evs) + 1))
    # the -D downlink log: one record per frame that reaches the decoder, judged line by line against spec/Dlog.tla
    for k in range(12 if tier == 'quick' else 80):
        acs = [0x4e9000 + rng.getrandbits(8) for _ in range(3)] + [0x00000a + k, 0x0abc00 + k]
        pool = []
        for a in acs:
            pool += nine_frames(a, rng) + other_format_frames(a, rng)[:12]
            pool += [short(5, enc_squawk(*[rng.randrange(8) for _ in range(4)]), a), short(4, enc_alt13(rng.randrange(-1000, 50000, 25)), a),
                     short(4, 0, a), long_(20, enc_alt13(rng.randrange(0, 45000, 25)), bits_of(rng.getrandbits(56), 56), a)]
        pool += nine_frames(0, rng) + ['zz', '8D', '']
        for dfx in (24, 19, 22, 1, 3, 12):
            # both readings of the address (AA field, AP overlay) non-zero: the frame reaches the decoder whichever the code uses
            pool.append(hexs(with_ap(pack([(dfx, 5), (rng.getrandbits(3), 3), (acs[0], 24)]) + (bits_of(rng.getrandbits(56), 56) if dfx >= 16 else []), acs[1])))
        lines = [list(rng.choice(pool).encode()) for _ in range(rng.randrange(5, 80))]
        fl = [[], ['-f', '17', '-f', '4'], ['-f', '5', '-f', '21', '-f', '24'], ['-U']][k % 4]
        logp = os.path.join(vlib.workdir(), 'dlog-%d.txt' % k)
        r = cli.run_cli(cb, fl + ['-i', 'Q', '-D', logp], data=b''.join(bytes(l) + b'\n' for l in lines))
        try:
            logged = open(logp, 'rb').read().decode('utf-8', 'replace').split('\n')
        except OSError:
            logged = []
        if logged and logged[-1] == '':
            logged = logged[:-1]
        f_ = [int(fl[i + 1]) for i in range(len(fl) - 1) if fl[i] == '-f']
        evs.append({'e': 'dlog', 'i': len(evs) + 1, 'opts': fl, 'args': {'f': [f_] if f_ else []}, 'lines': lines, 'code': r['code'],
                    'log': [cli.cps(x) for x in logged]})
    # the message log (-l <file> -M <df> ...): one "ERROR - DF:n, L:<line>" record per listed frame, before the -f filter
    for k in range(8 if tier == 'quick' else 40):
        acs = [0x4ea000 + rng.getrandbits(8) for _ in range(3)]
        pool = []
        for a in acs:
            pool += nine_frames(a, rng)
        pool += nine_frames(0, rng)[:4] + ['zz', '8D', '']
        for dfx in (24, 19, 1, 12):
            pool.append(hexs(with_ap(pack([(dfx, 5), (rng.getrandbits(3), 3), (acs[0], 24)]) + (bits_of(rng.getrandbits(56), 56) if dfx >= 16 else []), acs[1])))
        lines = [list(dialect(rng, rng.choice(pool)).encode()) for _ in range(rng.randrange(10, 70))]
        M = [[17], [4, 5, 20], [11, 24, 0], [21, 12, 19, 99]][k % 4]
        fl = [[], ['-f', '17'], ['-f', '4', '-f', '11'], ['-U']][(k // 4) % 4]
        logp = os.path.join(vlib.workdir(), 'mlog-%d.txt' % k)
        r = cli.run_cli(cb, fl + ['-i', 'Q', '-l', logp] + [x for d in M for x in ('-M', str(d))], data=b''.join(bytes(l) + b'\n' for l in lines))
        try:
            logged = open(logp, 'rb').read().decode('utf-8', 'replace').split('\n')
        except OSError:
            logged = []
        evs.append({'e': 'mlog', 'i': len(evs) + 1, 'opts': fl, 'args': {'M': M}, 'lines': lines, 'code': r['code'],
                    'mlog': [cli.cps(x) for x in logged if x.startswith('ERROR - DF:')]})
    # the refresh schedule: a timed TCP feed, one applied frame after each gap; TLC judges every frame against RefreshRule.Due
    import tcp, concurrent.futures as cf
    rmodels = []
    for cfgname in ('m1', 'm5', '0', '1', '3'):
        r = vlib.tlc_model('MC_refresh', cfg='MC_refresh_%s.cfg' % cfgname, workers=4, timeout=600)
        rmodels.append((cfgname, r.get('states'), r.get('ok', True)))
    print('refresh model (EveryFrame, Spaced, Prompt) for update in -1, -5, 0, 1, 3:', rmodels)
    apalache_ind(rep, 'DRIFT', 'RefreshInd', 'any update in -100..100000 s, any arrival gaps: refreshes at least update + 1 s apart, none before 2 update + 1 s, every frame when update < 0')
    print('; '.join(rep.notes[-1:]))
    gapsets = [(-1, [0.4, 0.4, 0.4, 1.2, 0.4, 0.4]), (0, [0.4, 0.4, 0.45, 0.4, 1.3, 0.4, 0.4, 0.6, 0.4, 2.2, 0.4]),
               (1, [0.4, 0.4, 0.4, 0.4, 0.4, 1.5, 0.4, 0.4, 0.4, 0.4, 0.4, 0.4, 0.4, 0.4, 2.6, 0.4, 0.4]),
               (2, [0.5, 1.0, 1.0, 1.0, 1.0, 1.0, 1.0, 0.5, 0.5, 0.5, 0.5, 0.5, 0.5, 3.5, 0.5])]
    with cf.ThreadPoolExecutor(max_workers=4) as ex:
        futs = [ex.submit(tcp.run_refresh_scenario, cb, u, gaps, 1000 + k) for k, (u, gaps) in enumerate(gapsets)]
        for f in futs:
            evs.append(f.result())
    for k, e in enumerate(evs):
        e['i'] = k + 1
    trc = os.path.join(vlib.workdir(), 'driftcli.trace.ndjson')
    vlib.write_ndjson(trc, evs)
    traces = traces + [trc]
    res = vlib.validate(traces, 'DRIFT')
    notes = {}
    n = 0
    for r in res:
        n += r['done']
        for v in r['viol']:
            notes.setdefault((v['pred'], v['tag']), []).append(v)
    out = {'events': n, 'drift': []}
    for (pred, tag), vs in sorted(notes.items()):
        e = [x for x in vlib.read_ndjson(vs[0]['trace']) if x['i'] == vs[0]['i']][0]
        ex = bytes(e['lines'][0]).decode('latin1') if e.get('lines') else ''
        out['drift'].append({'predicate': pred, 'path': tag, 'count': len(vs), 'example_line': ex})
        print('DRIFT predicate=%s path=%s count=%d example=%s' % (pred, tag, len(vs), ex))
    json.dump(out, open(os.path.join(vlib.ROOT, 'drift_report.json'), 'w'), indent=1)
    print('drift check: %d events, %d kinds of drift (see drift_report.json)' % (n, len(out['drift'])))
    return 0


# ---------------------------------------------------------------------------------------- replay
def replay(prop, path):
    """re-executes the scenario of a replay file against the current tree and validates it again"""
    r = json.load(open(path))
    sc = r.get('scenario')
    ev = r.get('event') or {}
    if not sc and ev.get('e') == 'cli':
        rep = Report(prop, 'quick')
        binary = vlib.build_cli(ev['profile'])
        opts = [o for o in ev['opts']]
        e2 = cli_event(binary, ev['profile'], opts, ev['lines'], 1, keep_snaps='snaps' in ev)
        for k in ev:
            if k not in e2:
                e2[k] = ev[k]
        tr = os.path.join(vlib.workdir(), 'replay-cli.trace.ndjson')
        vlib.write_ndjson(tr, [e2])
        rep.add_validation(vlib.validate([tr], prop))
        for v in rep.viol:
            print('REPRODUCED predicate=%s tag=%s' % (v['pred'], v['tag']))
        if rep.viol:
            print('VIOLATION property=%s replay=%s' % (prop, path))
            return 1
        print('not reproduced on the current tree')
        return 0
    if not sc:
        print('replay file has no scenario (model-level or sweep violation): %s' % (r.get('model_output') or '')[-1500:])
        return 2
    rep = Report(prop, 'quick')
    profs = ('checked', 'release') if prop == 'C01' else ('release',)
    for prof in profs:
        binary = vlib.build_harness(prof)
        tr = vlib.sqv_exec(binary, sc, 'replay-' + prof)
        res = vlib.validate([tr], prop)
        rep.add_validation(res)
    for v in rep.viol:
        print('REPRODUCED predicate=%s tag=%s event=%s' % (v['pred'], v['tag'], v['i']))
    for what, n in rep.known_hits.items():
        print('KNOWN-FINDING: property=%s %s' % (prop, what))
    if rep.viol:
        print('VIOLATION property=%s replay=%s' % (prop, path))
        return 1
    print('not reproduced on the current tree')
    return 0


# ----------------------------------------------------------------------------------------- C13
def junk_lines(rng):
    good = df17(5, 0x4ca7b5, me_ident(4, 1, callsign_codes('JUNK')))
    J = [[], [0], [0] * 17, list(range(0x80, 0x100)), [0xC3], [0xE2, 0x82], [0xF0, 0x9F], [13], [13, 13], [32] * 40,
         list(b'hello world'), list(b'*;'), list(good[:13].encode()), list(good[:27].encode()), list((good + '0').encode()),
         list((good + good).encode()), list(F.flip(good, [40]).encode()), list(F.flip(df11(5, 0x4ca7b5), [20]).encode()),
         list(good[:14].encode()), list(('%012X' % 5 + good[:13]).encode()), [0xFF] + list(good[:10].encode()),
         list(good.encode())[:20] + [0x80, 0x81], [0xEF, 0xBB, 0xBF], list(b'0123456789ABCDEF' * 4200)]
    J.append([rng.choice(b'0123456789abcdefXYZ \t*;') for _ in range(66000)])
    # lengths around buffer sizes (line + newline filling a power-of-two window exactly)
    for n in (1022, 1023, 1024, 4095, 4096, 8190, 8191, 8192, 8193, 16383, 16384, 32767, 65534, 65535, 65536, 65537, 131071):
        J.append([rng.choice(b'ghijklmnopqrstuvwxyz *;') for _ in range(n)])
    # a complete record with surplus digits far behind it (beyond any plausible scan window), after a lone CR, after a remark
    rec2 = short(4, enc_alt13(37000), 0x4077d4)
    for N in (30, 41, 63, 64, 65, 100, 128, 200, 256, 512, 1024, 4096, 65536):
        for v in (good, rec2):
            J.append(list((v + ';' + rng.choice([' ', '\t', 'x', '.']) * max(0, N - len(v) - 1) + rng.choice(['a', '0', 'beef', 'F' * 13])).encode()))
    # bytes 0x80-0xFF whose low seven bits spell a valid record (whole line, one digit, the digits of a time stamp)
    J += [[c | 0x80 for c in good.encode()], list(good[:-1].encode()) + [ord(good[-1]) | 0x80], [c | 0x80 for c in rec2.encode()],
          [ord('@') | 0x80] + [c | 0x80 for c in ('%012X' % 5).encode()] + list(rec2.encode()), list(rec2[:5].encode()) + [ord(rec2[5]) | 0x80] + list(rec2[6:].encode())]
    # text that means something to some program (telnet banners as in rec/sbs2.txt, end-of-input words and characters)
    J += [list(t.encode()) for t in ('Connection closed by foreign host.', 'Connection closed', 'Trying 127.0.0.1...', 'Connected to localhost.',
                                      "Escape character is '^]'.", 'EOF', 'quit', 'exit', 'END', 'bye', '.', '#', '//', '--', 'STOP', 'null', 'None')]
    J += [[4], [26], [27], [3], [0x1c], [12]]
    J += [list((good + ';      <- dropped by the feeder, bad checksum').encode()), list((rec2 + '\r' + ' ' * 70 + rec2).encode()),
          list((good + '\t' * 50 + '7' * 70000).encode()), list(('@%012X' % 77 + rec2 + ';' + '-' * 40 + 'c').encode())]
    # a byte that is not valid UTF-8 (alone, or the first byte of a two-byte sequence) in the place of every digit of a time-stamped
    # and of a plain record, long and short: one digit short of a frame whatever the byte is taken for (round 12: an index computed
    # on the decoded text that lands inside a replacement character)
    for v in ('@%012X' % 0x1234567 + good + ';', '@%012X' % 0x89abcd + rec2 + ';', '*' + good + ';', rec2):
        b = list(v.encode())
        for k_, c in enumerate(b):
            if chr(c) in '0123456789ABCDEFabcdef':
                J.append(b[:k_] + [0xFF] + b[k_ + 1:])
                if k_ % 3 == 0:
                    J.append(b[:k_] + [0xC3] + b[k_ + 1:])
    return J


def recorded_lines(name, limit, rng=None, start=0):
    p = os.path.join(vlib.REPO, 'rec', name)
    out = []
    with open(p, 'rb') as f:
        for i, l in enumerate(f):
            if i < start:
                continue
            l = l.rstrip(b'\n')
            out.append(list(l))
            if len(out) >= limit:
                break
    return out


def c13(tier):
    rep = Report('C13', tier)
    line_model(rep, tier)
    rng = random.Random(vlib.seed())
    J = junk_lines(rng)
    groups = []
    npairs = 150 if tier == 'quick' else 6000
    rec = recorded_lines('squitters.txt', 4000 if tier == 'quick' else 40000)
    for k in range(npairs):
        opts = OPTSETS[k % 4]
        if k % 3 == 0:
            st = rng.randrange(0, len(rec) - 60)
            clean = [l for l in rec[st:st + rng.randrange(5, 50)]]
        else:
            acs = [0x4ca000 + rng.getrandbits(8) for _ in range(1 + k % 3)]
            pool = []
            for a in acs:
                pool += other_format_frames(a, rng)
            clean = [list(rng.choice(pool).encode()) for _ in range(rng.randrange(3, 25))]
        dirty = list(clean)
        if k < len(clean) * 0 + 40 and len(clean) < 12:
            # every position for short streams
            pos = list(range(len(clean) + 1))
        else:
            pos = sorted(rng.sample(range(len(clean) + 1), min(len(clean) + 1, rng.randrange(1, 6))), reverse=True)
        for p_ in sorted(pos, reverse=True):
            j = rng.choice(J[:24]) if rng.random() < 0.8 else rng.choice(J[24:])
            dirty.insert(p_, j)
        tag = {'pair': 'c13'}
        groups.append([reset(opts, slot=0), reset(opts, slot=1), runn(dirty, slot=0, tag=tag), runn(clean, slot=1, tag=tag)])
    # a stale aircraft in the table while junk flows: junk must not move the sweep
    for k in range(10 if tier == 'quick' else 200):
        D = rng.choice([0, 1, 60])
        opts = ['-d', str(D)] + (['-U'] if k % 2 else [])
        a_old, a_new = 0x4ca200 + k, 0x4ca600 + k
        pool = other_format_frames(a_new, rng) + other_format_frames(a_new + 0x100, rng)
        clean = [list(rng.choice(pool).encode()) for _ in range(rng.randrange(3, 12))]
        dirty = list(clean)
        for _ in range(rng.randrange(8, 30)):
            dirty.insert(rng.randrange(len(dirty) + 1), rng.choice(J[:24]))
        tag = {'pair': 'c13'}
        pre = [run1(df17(5, a_old, me_ident(4, 1, callsign_codes('OLD%d' % k))), slot=0), run1(df17(5, a_old, me_ident(4, 1, callsign_codes('OLD%d' % k))), slot=1),
               tick((D + 1) * 1000)]
        groups.append([reset(opts, slot=0), reset(opts, slot=1)] + pre + [runn(dirty, slot=0, tag=tag), runn(clean, slot=1, tag=tag)])
    # a frame split over two lines, the second one carrying a byte that is not valid UTF-8: both stay rejected
    for k in range(12 if tier == 'quick' else 200):
        fr = rng.choice(other_format_frames(0x4ca900 + k, rng))
        cut = rng.randrange(2, len(fr) - 2)
        p1, p2 = list(fr[:cut].encode()), [rng.choice([0xff, 0x80, 0xc3])] + list(fr[cut:].encode())
        other = [list(x.encode()) for x in other_format_frames(0x4caa00 + k, rng)[:4]]
        clean = other
        dirty = [other[0], p1, p2, other[1], p1, [0xfe] + p2, other[2], other[3]]
        tag = {'pair': 'c13'}
        groups.append([reset([], slot=0), reset([], slot=1), runn(dirty, slot=0, tag=tag), runn(clean, slot=1, tag=tag)])
        groups.append([reset([], slot=0), reset([], slot=1), {'c': 'run', 'lines': dirty[:3], 'slot': 0, 'noeol': True, 'tag': tag},
                       {'c': 'run', 'lines': clean[:1], 'slot': 1, 'noeol': True, 'tag': tag}])
    good_lines = [list(l.encode()) for l in other_format_frames(0x4ca111, rng)[:6]]
    for j in J[24:]:
        clean = good_lines[:3]
        dirty = [clean[0], j, clean[1], j, clean[2]]
        tag = {'pair': 'c13'}
        groups.append([reset([], slot=0), reset([], slot=1), runn(dirty, slot=0, tag=tag), runn(clean, slot=1, tag=tag)])
    # long unbroken runs of unusable lines (every accepted line in between would reset whatever builds up across them)
    nlong = 40000 if tier == 'quick' else 400000
    for k, opts in enumerate([[], ['-U']] if tier == 'quick' else OPTSETS):
        kinds = [[], [13], [0], list(b'junk'), [0xff, 0xfe], list(good_lines[0][:13]), [32]]
        run_ = [kinds[(i * 7 + k) % len(kinds)] if k % 2 else kinds[k % len(kinds)] for i in range(nlong)]
        clean = good_lines[:4]
        dirty = [clean[0]] + run_ + [clean[1], clean[2]] + run_[:1000] + [clean[3]]
        tag = {'pair': 'c13'}
        groups.append([reset(opts, slot=0), reset(opts, slot=1), runn(dirty, slot=0, tag=tag), runn(clean, slot=1, tag=tag)])
    conform(rep, 'C13', groups, maxlen=400)
    rep.rule = ('%d stream pairs: a valid stream (shuffled generated frames of 1..3 aircraft, or a slice of rec/squitters.txt) and the same '
                'stream with junk lines inserted (empty, NUL, 0x80-0xFF, truncated UTF-8, lone CR, blanks, text, truncated / over-long / '
                'doubled frames, corrupted squitters, BOM, 66 KB lines, complete records followed by surplus digits beyond columns 30..65536 / a lone CR / a remark) at every position (short streams) or random positions, each run as one '
                'multi-line reader run under the four option sets; TLC checks that the accepted-frame subsequences are equal and then that '
                'the two tables are equal up to time stamps and both runs completed; also unbroken runs of %d unusable lines between accepted ones. '
                'Non-trivial = pair whose streams differ in length' % (npairs, nlong))
    vlib.nt_floor(rep, 50)
    return rep


CHECKS['C13'] = c13


# ----------------------------------------------------------------------------------------- C19
def valid_value_frames(a, rng):
    """DF4/5/11/17 frames whose carried values are all valid (no Gillham codes, no 'no information' fields)"""
    lat, lon = rng.uniform(-60, 60), rng.uniform(-170, 170)
    fr = []
    for _ in range(3):
        fr.append(short(4, enc_alt13(rng.randrange(0, 45000, 25)), a, rng.getrandbits(14)))
        fr.append(short(5, rng.getrandbits(13), a, rng.getrandbits(14)))
        fr.append(df11(rng.choice([0, 4, 5, 7]), a, rng.choice([0, 0, 11])))
        fr.append(df17(5, a, me_ident(rng.randint(1, 4), rng.getrandbits(3), [rng.choice([1, 5, 20, 26, 48, 57, 32]) for _ in range(8)])))
        for odd in (0, 1):
            lat += rng.uniform(-0.002, 0.002); lon += rng.uniform(-0.002, 0.002)
            y, x = cpr_encode(lat, lon, odd)
            fr.append(df17(5, a, me_airpos(rng.choice([9, 11, 12, 18]), rng.getrandbits(2), enc_alt12(rng.randrange(0, 45000, 25)), odd, y, x)))
        fr.append(df17(5, a, me_velocity(rng.choice([1, 1, 2]), rng.getrandbits(1), rng.randint(1, 1023), rng.getrandbits(1), rng.randint(1, 1023),
                                         rng.getrandbits(1), rng.randint(1, 511))))
        fr.append(df17(5, a, me_opstatus(rng.randint(0, 2))))
        y, x = cpr_encode(lat, lon, 0)
        fr.append(df17(5, a, me_airpos(rng.choice([20, 21, 22]), rng.getrandbits(2), rng.getrandbits(12), 0, y, x)))
    return fr


def c19(tier):
    rep = Report('C19', tier)
    rng = random.Random(vlib.seed())
    wd = vlib.workdir()
    groups = []
    rec = recorded_lines('squitters.txt', 3000 if tier == 'quick' else 30000)
    pres = [('i', ['-i', 'aAews']), ('i', ['-i', 'e']), ('i', ['-i', 'Q', '-i', 'w']), ('o', ['-o', 'N']), ('o', ['-o', 'dV']), ('c', ['-c']),
            ('u', ['-u', '0']), ('u', ['--update=-1']), ('u', ['-u', '1000']), ('u', ['-u', '100']), ('u', ['-u', '61']), ('M', ['-M', '17', '-M', '4']),
            ('D', ['-D', os.path.join(wd, 'downlink.log')]), ('D', ['-D', '/dev/full']), ('D', ['-D', os.path.join(wd, 'no-such-dir', 'x.log')])]
    nrep = 2 if tier == 'quick' else 30
    for rep_i in range(nrep):
        for name, extra in pres:
            base = rng.choice([[], ['-U'], ['-R'], ['-U', '-R']])
            if rng.random() < 0.5:
                st = rng.randrange(0, len(rec) - 80)
                lines = rec[st:st + rng.randrange(20, 70)]
            else:
                pool = []
                for a in [0x4b1000 + rng.getrandbits(8) for _ in range(1 + rep_i % 3)]:
                    pool += other_format_frames(a, rng)
                lines = [rng.choice(pool) for _ in range(rng.randrange(10, 40))]
            g = [{'c': 'reset', 'opts': ['-i', 'Q'] + base, 'slot': 0}, {'c': 'reset', 'opts': (['-i', 'Q'] if name != 'i' else []) + base + extra, 'slot': 1}]
            tag = {'pair': 'c19', 'opt': name}
            for l in lines:
                g.append(run1(l, slot=0, tag=tag))
                g.append(run1(l, slot=1, tag=tag))
                if rng.random() < 0.05:
                    g.append(tick(rng.choice([3000, 9000, 11000])))
            groups.append(g)
        for name, extra in pres:
            base = rng.choice([[], ['-U']])
            st = rng.randrange(0, len(rec) - 200)
            lines = rec[st:st + rng.randrange(40, 150)]
            tag = {'pair': 'c19', 'opt': name + '.run'}
            groups.append([{'c': 'reset', 'opts': ['-i', 'Q'] + base, 'slot': 0},
                           {'c': 'reset', 'opts': (['-i', 'Q'] if name != 'i' else []) + base + extra, 'slot': 1},
                           runn(lines, slot=0, tag=tag), runn(lines, slot=1, tag=tag)])
        # expiry does not depend on the presentation either: a row overdue for the sweep, then a run long enough to sweep it
        for name, extra in pres:
            base = rng.choice([[], ['-U']])
            a_old = 0x4b1800 + rng.getrandbits(8)
            pool = []
            for a in [0x4b1900 + rng.getrandbits(8) for _ in range(2)]:
                pool += other_format_frames(a, rng)
            # (runs shorter than the sweep distance too: whether the overdue row is still there after 1..10 frames must not depend on the option)
            lines = [rng.choice(pool) for _ in range(rng.choice([1, 2, 3, 5, 10, 11, 12, 13, 20, 30]))]
            tag = {'pair': 'c19', 'opt': name + '.sweep'}
            old = df17(5, a_old, me_ident(4, 1, callsign_codes('OLDROW')))
            groups.append([{'c': 'reset', 'opts': ['-i', 'Q', '-d', '1'] + base, 'slot': 0},
                           {'c': 'reset', 'opts': (['-i', 'Q'] if name != 'i' else []) + ['-d', '1'] + base + extra, 'slot': 1},
                           run1(old, slot=0), run1(old, slot=1), tick(2500), runn(lines, slot=0, tag=tag), runn(lines, slot=1, tag=tag)])
        # -O affects the distance only (observers far from the traffic, on top of it, and one that does not parse)
        for obs in ('90,0', '10.5, -20.25', 'garbage', 'near'):
            lines = valid_value_frames(0x4b2000 + rep_i, rng)
            if obs == 'near':
                y0_, x0_ = cpr_encode(47.25, 8.75, 0)
                y1_, x1_ = cpr_encode(47.2504, 8.7506, 1)
                lines = [df17(5, 0x4b2000 + rep_i, me_airpos(11, 0, enc_alt12(9000), 0, y0_, x0_)), df17(5, 0x4b2000 + rep_i, me_airpos(11, 0, enc_alt12(9025), 1, y1_, x1_))] * 2 + lines[:6]
                obs = '47.25, 8.75'
            else:
                rng.shuffle(lines)
            g = [reset(['-U'] if rep_i % 2 else [], slot=0, obs='-45, 170'), reset(['-U'] if rep_i % 2 else [], slot=1, obs=obs)]
            tag = {'pair': 'c19o', 'opt': 'O'}
            for l in lines:
                g += [run1(l, slot=0, tag=tag), run1(l, slot=1, tag=tag)]
            groups.append(g)
    # -U neutrality on valid-value DF4/5/11/17 histories
    nu = 12 if tier == 'quick' else 600
    for h in range(nu):
        acs = [0x4b3000 + rng.getrandbits(8) for _ in range(1 + h % 3)]
        pool = []
        for a in acs:
            pool += valid_value_frames(a, rng)
            # airspeed / heading velocity squitters (TC19 subtypes 3 and 4) carry no ground speed or track: they leave both alone
            pool += [df17(5, a, me_velocity(rng.choice([3, 4]), rng.getrandbits(1), rng.randint(1, 1023), rng.getrandbits(1), rng.randint(1, 1023),
                                            rng.getrandbits(1), rng.randint(1, 511))) for _ in range(2)]
        R = ['-R'] if h % 4 == 0 else []
        g = [reset(R, slot=0), reset(R + ['-U'], slot=1)]
        tag = {'pair': 'c19u', 'opt': 'U'}
        for _ in range(60):
            if rng.random() < 0.12:
                g.append(tick(rng.choice([3000, 9000, 11000, 30000])))
            l = rng.choice(pool)
            g += [run1(l, slot=0, tag=tag), run1(l, slot=1, tag=tag)]
        groups.append(g)
    # the altitude column with and without -U when surface-position squitters (which blank it) are part of the history
    for h in range(8 if tier == 'quick' else 200):
        a = 0x4b3800 + h
        pool = valid_value_frames(a, rng)
        ys, xs = cpr_encode(48.35, 11.78, 0)
        pool += [df17(5, a, me_surface(rng.randint(5, 8), rng.getrandbits(7), 1, rng.getrandbits(7), k % 2, ys, xs)) for k in range(4)]
        g = [reset([], slot=0), reset(['-U'], slot=1)]
        # even h: any movement / track field, the altitude column compared; odd h: valid movement and track, all nine parameters
        tag = {'pair': 'c19ua', 'opt': 'U.alt'}
        if h % 2:
            pool = valid_value_frames(a, rng)
            la, lo = rng.uniform(-60, 60), rng.uniform(-170, 170)
            for k in range(6):
                ys, xs = cpr_encode(la + k * 0.0003, lo + k * 0.0003, k % 2)
                pool.append(df17(5, a, me_surface(rng.randint(5, 8), rng.randint(1, 124), 1, rng.getrandbits(7), k % 2, ys, xs)))
            tag = {'pair': 'c19u', 'opt': 'U.surface'}
        for _ in range(50):
            l = rng.choice(pool)
            g += [run1(l, slot=0, tag=tag), run1(l, slot=1, tag=tag)]
        groups.append(g)
    conform(rep, 'C19', groups, maxlen=3000)
    evs = cli_pair_events(rng, 9 if tier == 'quick' else 180)
    trc = os.path.join(vlib.workdir(), 'c19cli.trace.ndjson')
    vlib.write_ndjson(trc, evs)
    rep.add_validation(vlib.validate([trc], 'C19'), key_fn=lambda e: (e['opt'], tuple(map(tuple, e['lines'][:5]))))
    rep.extra['cli_pairs'] = len(evs)
    rep.rule = ('paired executions of the same history in two tables whose option sets differ in one named option: -i (3 variants incl. '
                'non-quiet), -o, -c, -u (0, -1, 1000), -M, -D (full rows compared after every line, stamps excluded), -O (all but the distance), '
                'and -U on %d random histories of valid-value DF4/5/11/17 frames for 1..3 aircraft with clock steps (the nine listed '
                'parameters compared after every line; with surface squitters in the history the altitude column), and whole runs that sweep an '
                'overdue row under each presentation option. Histories: slices of rec/squitters.txt and generated frames. Non-trivial = paired '
                'step in which the table changed' % nu)
    vlib.nt_floor(rep, 200)
    return rep


CHECKS['C19'] = c19


# ----------------------------------------------------------------------------------------- C17
def c17(tier):
    rep = Report('C17', tier, level='exploration')
    binary = vlib.build_harness('release')
    tr = sweep_tool(binary, 'country', None, 'country')
    res = vlib.validate([tr], 'C17')
    evs_c = vlib.read_ndjson(tr)
    ev = evs_c[0]
    known = vlib.load_known()
    for r in res:
        rep.traces += 1
        for v in r['viol']:
            # v['i'] is the first address of the offending run
            run = [x for e_ in evs_c for x in e_['runs'] if x['lo'] == v['i']]
            v = dict(v, event={'e': 'country-run', 'run': run[0] if run else None}, tag='%06X' % v['i'])
            k = vlib.match_known(v, known)
            if k:
                rep.known_hits[k['what']] = rep.known_hits.get(k['what'], 0) + 1
            else:
                rep.viol.append(v)
    # the reader path: first contact through every kind of frame for one address in each 1024-address block (quick: every 4th)
    rng = random.Random(vlib.seed())
    groups, g = [], None
    step = 4096 if tier == 'quick' else 1024
    for k, base in enumerate(range(0, 1 << 24, step)):
        a = base + rng.randrange(1, step)
        fr = nine_frames(a, rng)[k % 9]
        if k % 60 == 0:
            g = [reset([['-U'], [], ['-R']][(k // 60) % 3])]
            groups.append(g)
        g.append(run1(fr))
    # the country is a function of the address alone, whatever the row has been through: later frames on both update paths, a row
    # that went stale and is heard again before the sweep, a row swept and created again
    nh = 0
    for k, base in enumerate(range(0, 1 << 24, 65536 if tier == 'quick' else 8192)):
        a = base + rng.randrange(1, 4096)
        b = 0x4d7000 + (k % 4000)
        fr = nine_frames(a, rng)
        opts = [['-U'], [], ['-R']][k % 3]
        g = [reset(['-d', '1'] + opts), run1(fr[k % 9]), run1(fr[(k + 3) % 9]), tick(2500), run1(fr[(k + 5) % 9]), run1(fr[5]),
             tick(2500), runn([rng.choice(nine_frames(b, rng)) for _ in range(13)]), run1(fr[(k + 1) % 9]), run1(fr[3])]
        groups.append(g)
        nh += 1
    rep.extra['row_histories'] = nh
    conform(rep, 'C17', groups, maxlen=3000)
    # the code as SHOWN in the RG column of a refresh, for rows of several ages (young, silent for half the expiry time, overdue)
    pcases = []
    for k, fs in enumerate(['', 'aAews', 'e', 'w']):
        rows = []
        for j, (a, reg) in enumerate([(0x4CA86E, 'IE'), (0xA00001, 'US'), (0x3C6586, 'DE'), (0x000001, '??'), (0x7C0000, 'AU'), (0x0A0001, 'DZ')]):
            r = filled_row(a, 'min', rng) if j % 2 else blank_row(a)
            r['reg'] = reg; r['regcp'] = cli.cps(reg); r['ts'] = [0, 29000, 31000, 45000, 59000, 75000][(j + k) % 6]
            rows.append(r)
        pcases.append({'id': len(pcases), 'i': fs, 'o': '', 'rows': rows})
    pev = run_print(binary, pcases, 'c17')
    ptr = os.path.join(vlib.workdir(), 'c17print.trace.ndjson')
    vlib.write_ndjson(ptr, pev)
    rep.add_validation(vlib.validate([ptr], 'C17'))
    rep.evaluations += 2 * (1 << 24)
    rep.nontrivial |= set((r['lo'], r['hi'], r['reg']) for r in ev['runs'])
    rep.samples = ev['runs'][:3] + [r for r in ev['runs'] if r['reg'] == 'IE'][:1]
    rep.exhaustive = True
    rep.rule = ('a row is created through the public constructor for every one of the 2^24 addresses; the run-length encoding of row.reg '
                '(%d runs, lossless; once through Plane::from_message and once through Plane::from_downlink, the constructor the reader uses, with a '
                'decoded DF18 frame) is judged by TLC against the Annex 10 block table of spec/Country.tla: runs partition the address space, '
                'a run starting inside a block stays inside it and shows its code, a run starting outside every block touches no block and '
                'shows "??"; plus first-contact frames of all nine formats through the real reader for one address per 1024-address block '
                '(quick: per 4096), the created row judged event by event; and %d row histories (update on both paths, stale and heard again before the '
                'sweep, swept and re-created) in which every frame of the address is judged. distinct_nontrivial = runs + judged rows' % (len(ev['runs']), nh))
    rep.assumptions.append('the allocation table is written from memory of Annex 10 (no copy offline); blocks marked uncertain constrain nothing')
    return rep


CHECKS['C17'] = c17
