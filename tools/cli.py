"""Running the real CLI binary and cutting its stdout into refreshes (semantics-free text splitting)."""
import os, subprocess, time, re
import vlib

CLEAR = b'\x1b[2J\x1b[H\x1b[3J'


def run_cli(binary, opts, data=None, source=None, timeout=120, cwd=None):
    """feeds `data` (bytes) as a file source unless `source` is given. returns dict(code, out, err, wall)"""
    wd = vlib.workdir()
    if source is None:
        source = os.path.join(wd, 'cli-%d-%d.txt' % (os.getpid(), int(time.time() * 1e6) % 10**9))
        with open(source, 'wb') as f:
            f.write(data)
        rm = True
    else:
        rm = False
    t0 = time.time()
    try:
        p = subprocess.run([binary] + list(opts) + ['-s', source], stdout=subprocess.PIPE, stderr=subprocess.PIPE,
                           timeout=timeout, cwd=cwd or wd)
        code, out, err = p.returncode, p.stdout, p.stderr
    except subprocess.TimeoutExpired as e:
        code, out, err = -999, e.stdout or b'', e.stderr or b''
    finally:
        if rm:
            try:
                os.remove(source)
            except OSError:
                pass
    return {'code': code, 'out': out, 'err': err, 'wall': time.time() - t0}


def snapshots(out):
    """split stdout on the clear-screen sequence; a refresh = header, separator, rows, separator[, counter line]"""
    snaps = []
    for chunk in out.split(CLEAR)[1:]:
        lines = chunk.decode('utf-8', 'replace').split('\n')
        if lines and lines[-1] == '':
            lines = lines[:-1]
        if len(lines) >= 2 and lines[1].startswith('------') and set(lines[1]) <= set('- '):
            sep = lines[1]
            body = lines[2:]
            rows, counts, closed = [], None, False
            for l in body:
                if not closed and l == sep:
                    closed = True
                elif not closed:
                    rows.append(l)
                elif counts is None:
                    counts = l
            snaps.append({'header': lines[0], 'sep': sep, 'rows': rows, 'counts': counts, 'closed': closed})
        else:
            snaps.append({'legend': lines})
    return snaps


def cps(s):
    return [ord(c) for c in s]
