#!/usr/bin/env python3
"""ICAO Annex 10 vol. III, table 9-1 (allocation of 24-bit aircraft addresses to States), written from
the standard as I know it - independently of the implementation's match arms.  Each entry: first
address (hex), number of prefix bits (4, 6, 9, 12 or 14), ISO 3166 alpha-2 code, and a certainty flag.
`uncertain` entries (block size or code designation not established with certainty, or allocated after
the edition the decoder's author can be expected to have used) constrain nothing.  Generates
spec/Country.tla."""
import os
T = [
 # Africa
 ('004000', 14, 'ZW'), ('006000', 12, 'MZ'), ('008000', 9, 'ZA'), ('010000', 9, 'EG'), ('018000', 9, 'LY'), ('020000', 9, 'MA'),
 ('028000', 9, 'TN'), ('030000', 14, 'BW'), ('032000', 12, 'BI'), ('034000', 12, 'CM'), ('035000', 14, 'KM'), ('036000', 12, 'CG'),
 ('038000', 12, 'CI'), ('03E000', 12, 'GA'), ('040000', 12, 'ET'), ('042000', 12, 'GQ'), ('044000', 12, 'GH'), ('046000', 12, 'GN'),
 ('048000', 14, 'GW'), ('04A000', 14, 'LS'), ('04C000', 12, 'KE'), ('050000', 12, 'LR'), ('054000', 12, 'MG'), ('058000', 12, 'MW'),
 ('05A000', 14, 'MV'), ('05C000', 12, 'ML'), ('05E000', 14, 'MR'), ('060000', 14, 'MU'), ('062000', 12, 'NE'), ('064000', 12, 'NG'),
 ('068000', 12, 'UG'), ('06A000', 14, 'QA'), ('06C000', 12, 'CF'), ('06E000', 12, 'RW'), ('070000', 12, 'SN'), ('074000', 14, 'SC'),
 ('076000', 14, 'SL'), ('078000', 12, 'SO'), ('07A000', 14, 'SZ'), ('07C000', 12, 'SD'), ('080000', 12, 'TZ'), ('084000', 12, 'TD'),
 ('088000', 12, 'TG'), ('08A000', 12, 'ZM'), ('08C000', 12, 'CD'), ('090000', 12, 'AO'), ('094000', 14, 'BJ'), ('096000', 14, 'CV'),
 ('098000', 14, 'DJ'), ('09A000', 12, 'GM'), ('09C000', 12, 'BF'), ('09E000', 14, 'ST'), ('0A0000', 9, 'DZ'),
 # Caribbean / Central America
 ('0A8000', 12, 'BS'), ('0AA000', 14, 'BB'), ('0AB000', 14, 'BZ'), ('0AC000', 12, 'CO'), ('0AE000', 12, 'CR'), ('0B0000', 12, 'CU'),
 ('0B2000', 12, 'SV'), ('0B4000', 12, 'GT'), ('0B6000', 12, 'GY'), ('0B8000', 12, 'HT'), ('0BA000', 12, 'HN'), ('0BC000', 14, 'VC'),
 ('0BE000', 12, 'JM'), ('0C0000', 12, 'NI'), ('0C2000', 12, 'PA'), ('0C4000', 12, 'DO'), ('0C6000', 12, 'TT'), ('0C8000', 12, 'SR'),
 ('0CA000', 14, 'AG'), ('0CC000', 14, 'GD'), ('0D0000', 9, 'MX'), ('0D8000', 9, 'VE'),
 ('100000', 4, 'RU'),
 ('201000', 14, 'NA'), ('202000', 14, 'ER'),
 # Europe
 ('300000', 6, 'IT'), ('340000', 6, 'ES'), ('380000', 6, 'FR'), ('3C0000', 6, 'DE'), ('400000', 6, 'GB'),
 ('440000', 9, 'AT'), ('448000', 9, 'BE'), ('450000', 9, 'BG'), ('458000', 9, 'DK'), ('460000', 9, 'FI'), ('468000', 9, 'GR'),
 ('470000', 9, 'HU'), ('478000', 9, 'NO'), ('480000', 9, 'NL'), ('488000', 9, 'PL'), ('490000', 9, 'PT'), ('498000', 9, 'CZ'),
 ('4A0000', 9, 'RO'), ('4A8000', 9, 'SE'), ('4B0000', 9, 'CH'), ('4B8000', 9, 'TR'), ('4C0000', 9, 'YU', 'uncertain'),
 ('4C8000', 14, 'CY'), ('4CA000', 12, 'IE'), ('4CC000', 12, 'IS'), ('4D0000', 14, 'LU'), ('4D2000', 14, 'MT', 'uncertain'), ('4D4000', 14, 'MC'),
 ('500000', 14, 'SM'), ('501000', 14, 'AL'), ('501C00', 14, 'HR'), ('502C00', 14, 'LV'), ('503C00', 14, 'LT'), ('504C00', 14, 'MD'),
 ('505C00', 14, 'SK'), ('506C00', 14, 'SI'), ('507C00', 14, 'UZ'), ('508000', 9, 'UA'), ('510000', 14, 'BY'), ('511000', 14, 'EE'),
 ('512000', 14, 'MK'), ('513000', 14, 'BA'), ('514000', 14, 'GE'), ('515000', 14, 'TJ'), ('516000', 14, 'ME', 'uncertain'),
 ('600000', 14, 'AM'), ('600800', 14, 'AZ'), ('601000', 14, 'KG'), ('601800', 14, 'TM'),
 ('680000', 14, 'BT'), ('681000', 14, 'FM'), ('682000', 14, 'MN'), ('683000', 14, 'KZ'), ('684000', 14, 'PW'),
 # Middle East / Asia
 ('700000', 12, 'AF'), ('702000', 12, 'BD'), ('704000', 12, 'MM'), ('706000', 12, 'KW'), ('708000', 12, 'LA'), ('70A000', 12, 'NP'),
 ('70C000', 14, 'OM'), ('70E000', 12, 'KH'), ('710000', 9, 'SA'), ('718000', 9, 'KR'), ('720000', 9, 'KP'), ('728000', 9, 'IQ'),
 ('730000', 9, 'IR'), ('738000', 9, 'IL'), ('740000', 9, 'JO'), ('748000', 9, 'LB'), ('750000', 9, 'MY'), ('758000', 9, 'PH'),
 ('760000', 9, 'PK'), ('768000', 9, 'SG'), ('770000', 9, 'LK'), ('778000', 9, 'SY'), ('780000', 6, 'CN'), ('7C0000', 6, 'AU'),
 ('800000', 6, 'IN'), ('840000', 6, 'JP'), ('880000', 9, 'TH'), ('888000', 9, 'VN'), ('890000', 12, 'YE'), ('894000', 12, 'BH'),
 ('895000', 14, 'BN'), ('896000', 12, 'AE'), ('897000', 14, 'SB'), ('898000', 12, 'PG'), ('899000', 14, 'TW', 'uncertain'), ('8A0000', 9, 'ID'),
 ('900000', 14, 'MH'), ('901000', 14, 'CK'), ('902000', 14, 'WS'),
 ('A00000', 4, 'US'),
 ('C00000', 6, 'CA'), ('C80000', 9, 'NZ'), ('C88000', 12, 'FJ'), ('C8A000', 14, 'NR'), ('C8C000', 14, 'LC'), ('C8D000', 14, 'TO'),
 ('C8E000', 14, 'KI'), ('C90000', 14, 'VU'),
 ('E00000', 6, 'AR'), ('E40000', 6, 'BR'), ('E80000', 12, 'CL'), ('E84000', 12, 'EC'), ('E88000', 12, 'PY'), ('E8C000', 12, 'PE'),
 ('E90000', 12, 'UY'), ('E94000', 12, 'BO'),
 ('F00000', 9, 'ICAO', 'uncertain'), ('F09000', 14, 'ICAO', 'uncertain'),
]


def main():
    here = os.path.dirname(os.path.abspath(__file__))
    rows = []
    for e in T:
        lo = int(e[0], 16)
        bits = e[1]
        hi = lo + (1 << (24 - bits)) - 1
        assert lo % (1 << (24 - bits)) == 0, e
        rows.append((lo, hi, e[2], len(e) > 3))
    rows.sort()
    for a, b in zip(rows, rows[1:]):
        assert a[1] < b[0], (a, b)
    with open(os.path.join(here, '..', 'spec', 'Country.tla'), 'w') as f:
        f.write('------------------------------- MODULE Country -------------------------------\n')
        f.write('(* GENERATED by tools/country_table.py: ICAO Annex 10 vol. III table 9-1 as [lo, hi, code, sure]. *)\n')
        f.write('(* Blocks with sure = FALSE constrain nothing (see the generator for why).                   *)\n')
        f.write('EXTENDS Integers, Sequences\n')
        f.write('Blocks == <<\n')
        f.write(',\n'.join('  [lo |-> %d, hi |-> %d, code |-> "%s", sure |-> %s]' % (r[0], r[1], r[2], 'FALSE' if r[3] else 'TRUE') for r in rows))
        f.write('\n>>\n')
        f.write('NBlocks == %d\n' % len(rows))
        f.write('\\* sorted, pairwise disjoint, aligned to their prefix length\n')
        f.write('ASSUME \\A i \\in 1..(NBlocks - 1) : Blocks[i].hi < Blocks[i + 1].lo\n')
        f.write('ASSUME \\A i \\in 1..NBlocks : LET n == Blocks[i].hi - Blocks[i].lo + 1 IN\n')
        f.write('          n \\in {1024, 4096, 32768, 262144, 1048576} /\\ Blocks[i].lo % n = 0\n')
        f.write('=============================================================================\n')
    print(len(rows), 'blocks')


if __name__ == '__main__':
    main()
