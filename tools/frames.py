"""Frame builders for input generation.  Bits are *placed*, nothing is decoded and no expected value
is produced here: the TLA+ oracle judges the frame that was actually fed, so a mistake in this file
can only make the inputs less interesting (which the non-vacuity counters would show), never make a
verdict wrong."""
import math

G = 0x1FFF409


def crc24(bits):
    """remainder of the bit string (list of 0/1) modulo the Mode S generator"""
    r = 0
    for b in bits:
        r = (r << 1) | b
        if r & 0x1000000:
            r ^= G
    return r & 0xFFFFFF


def bits_of(v, n):
    return [(v >> (n - 1 - k)) & 1 for k in range(n)]


def pack(fields):
    out = []
    for v, n in fields:
        out += bits_of(v, n)
    return out


def hexs(bits):
    assert len(bits) % 4 == 0
    return ''.join('%X' % int(''.join(map(str, bits[i:i + 4])), 2) for i in range(0, len(bits), 4))


def unhex(h):
    out = []
    for c in h:
        out += bits_of(int(c, 16), 4)
    return out


def with_pi(data, ii=0):
    return data + bits_of(crc24(data + [0] * 24) ^ ii, 24)


def with_ap(data, addr):
    return data + bits_of(crc24(data + [0] * 24) ^ addr, 24)


def df11(ca, aa, ii=0):
    return hexs(with_pi(pack([(11, 5), (ca, 3), (aa, 24)]), ii))


def df17(ca, aa, me, df=17):
    """me: list of 56 bits"""
    assert len(me) == 56
    return hexs(with_pi(pack([(df, 5), (ca, 3), (aa, 24)]) + me))


def short(df, code13, addr, fill14=0):
    return hexs(with_ap(pack([(df, 5), (fill14, 14), (code13, 13)]), addr))


def long_(df, code13, mb, addr, fill14=0):
    assert len(mb) == 56
    return hexs(with_ap(pack([(df, 5), (fill14, 14), (code13, 13)]) + mb, addr))


# ---- ME fields -------------------------------------------------------------------------------
def me_ident(tc, cat, chars):
    assert len(chars) == 8
    return pack([(tc, 5), (cat, 3)] + [(c, 6) for c in chars])


def me_airpos(tc, ss, ac12, odd, lat17, lon17, saf=0, t=0):
    return pack([(tc, 5), (ss, 2), (saf, 1), (ac12, 12), (t, 1), (odd, 1), (lat17, 17), (lon17, 17)])


def me_surface(tc, mov, trkst, trk, odd, lat17, lon17):
    return pack([(tc, 5), (mov, 7), (trkst, 1), (trk, 7), (0, 1), (odd, 1), (lat17, 17), (lon17, 17)])


def me_velocity(st, dew, vew, dns, vns, svr, vr, vrsrc=0, ic=0, ifr=0, nuc=0, sdif=0, dif=0):
    return pack([(19, 5), (st, 3), (ic, 1), (ifr, 1), (nuc, 3), (dew, 1), (vew, 10), (dns, 1), (vns, 10),
                 (vrsrc, 1), (svr, 1), (vr, 9), (0, 2), (sdif, 1), (dif, 7)])


def me_opstatus(ver, st=0):
    return pack([(31, 5), (st, 3), (0, 16), (0, 16), (ver, 3), (0, 13)])


def me_raw(tc, rest51):
    return pack([(tc, 5), (rest51, 51)])


# ---- MB fields -------------------------------------------------------------------------------
def twoc(v, n):
    return v if v >= 0 else (1 << n) + v


def mb17(b20=1, b40=0, b50=0, b60=0, low=0):
    return pack([(0, 6), (b20, 1), (0, 1), (b40, 1), (0, 6), (b50, 1), (0, 7), (b60, 1), (low, 32)])


def mb40(mcp, fms, baro, st=(1, 1, 1), st48=1, st54=1, rsv40=0, rsv52=0, modes=0, src=0):
    return pack([(st[0], 1), (mcp, 12), (st[1], 1), (fms, 12), (st[2], 1), (baro, 12), (rsv40, 8),
                 (st48, 1), (modes, 3), (rsv52, 2), (st54, 1), (src, 2)])


def mb50(roll, trk, gs, tar, tas, st=(1, 1, 1, 1, 1)):
    return pack([(st[0], 1), (twoc(roll, 10), 10), (st[1], 1), (trk, 11), (st[2], 1), (gs, 10),
                 (st[3], 1), (twoc(tar, 10), 10), (st[4], 1), (tas, 10)])


def mb60(hdg, ias, mach, br, ir, st=(1, 1, 1, 1, 1)):
    return pack([(st[0], 1), (hdg, 11), (st[1], 1), (ias, 10), (st[2], 1), (mach, 10),
                 (st[3], 1), (twoc(br, 10), 10), (st[4], 1), (twoc(ir, 10), 10)])


def mb20(chars):
    return pack([(0x20, 8)] + [(c, 6) for c in chars])


def mb30(ara1, mte, rest=0):
    return pack([(0x30, 8), (ara1, 1), (0, 13), (0, 4), (0, 1), (mte, 1), (rest, 28)])


# ---- small encoders for interesting values ---------------------------------------------------
def enc_alt13(ft):
    n = (ft + 1000) // 25
    return ((n >> 5) << 7) | (((n >> 4) & 1) << 5) | 16 | (n & 15)


def enc_alt12(ft):
    n = (ft + 1000) // 25
    return ((n >> 4) << 5) | 16 | (n & 15)


def enc_squawk(a, b, c, d):
    return (((c & 1) << 12) | ((a & 1) << 11) | (((c >> 1) & 1) << 10) | (((a >> 1) & 1) << 9) | ((c >> 2) << 8)
            | ((a >> 2) << 7) | ((b & 1) << 5) | ((d & 1) << 4) | (((b >> 1) & 1) << 3) | (((d >> 1) & 1) << 2)
            | ((b >> 2) << 1) | (d >> 2))


def callsign_codes(s):
    out = []
    for ch in s.ljust(8)[:8]:
        if 'A' <= ch <= 'Z':
            out.append(ord(ch) - 64)
        elif '0' <= ch <= '9':
            out.append(ord(ch))
        else:
            out.append(32)
    return out


# ---- CPR encoding (standard formulas, floating point: input generation only) ------------------
def _nl(lat):
    lat = abs(lat)
    if lat >= 87.0:
        return 1 if lat > 87.0 else 2
    if lat == 0:
        return 59
    a = 1 - math.cos(math.pi / 30)
    b = math.cos(math.pi / 180 * lat) ** 2
    return int(math.floor(2 * math.pi / math.acos(1 - a / b)))


def cpr_encode(lat, lon, odd):
    dlat = 360.0 / (59 if odd else 60)
    yz = math.floor((1 << 17) * ((lat % dlat) / dlat) + 0.5)
    rlat = dlat * (yz / (1 << 17) + math.floor(lat / dlat))
    nl = _nl(rlat)
    ni = max(nl - (1 if odd else 0), 1)
    dlon = 360.0 / ni
    xz = math.floor((1 << 17) * ((lon % dlon) / dlon) + 0.5)
    return int(yz) & 0x1FFFF, int(xz) & 0x1FFFF


def flip(hexline, positions):
    """flip the given 1-based bit positions of a hex frame"""
    bits = unhex(hexline)
    for p in positions:
        bits[p - 1] ^= 1
    return hexs(bits)
