"""Scenario generators (inputs only).  A scenario is a list of command dicts for `sqv exec`;
a shard is a self-contained scenario that starts with a reset."""
import random
from frames import *

QUIET = ['-i', 'Q']
OPTSETS = [[], ['-U'], ['-R'], ['-U', '-R']]


def reset(opts, slot=0, obs=None, tag=None):
    o = list(QUIET) + list(opts)
    if obs is not None:
        o += ['--observer-coord=' + obs]
    c = {'c': 'reset', 'opts': o, 'slot': slot}
    if tag is not None:
        c['tag'] = tag
    return c


def run1(line, slot=0, direct=False, tag=None):
    c = {'c': 'run', 'lines': [line], 'slot': slot}
    if direct:
        c['direct'] = True
    if tag is not None:
        c['tag'] = tag
    return c


def runn(lines, slot=0, tag=None, noeol=False):
    c = {'c': 'run', 'lines': list(lines), 'slot': slot}
    if tag is not None:
        c['tag'] = tag
    if noeol:
        c['noeol'] = True
    return c


def tick(ms):
    return {'c': 'tick', 'ms': int(ms)}


def chunk(cmds_groups, maxlen=3000):
    """cmds_groups: list of self-contained groups (each starts with reset). Pack into shards."""
    shards, cur = [], []
    for g in cmds_groups:
        if cur and len(cur) + len(g) > maxlen:
            shards.append(cur)
            cur = []
        cur = cur + g
    if cur:
        shards.append(cur)
    return shards


def sweep_groups(frame_fn, values, opts_list, rng, base_addr=0x400000, per_group=60, setup_fn=None, setups=None):
    """For every option set: each value as an *update* of an existing row and as the *first* frame
    of a fresh aircraft.  frame_fn(value, addr, rng) -> hex line.  setup_fn(addr) -> lines that
    create the row first (default: a DF11 with CA 5)."""
    groups = []
    for opts in opts_list:
        vals = list(values)
        for i in range(0, len(vals), per_group):
            part = vals[i:i + per_group]
            a = base_addr + 1 + (i // per_group) % 1000
            g = [reset(opts)]
            su = setups[(i // per_group) % len(setups)] if setups else setup_fn
            for l in (su(a) if su else [df11(5, a)]):
                g.append(run1(l))
            for j, v in enumerate(part):
                # now and then the row has been silent for a while: long enough for anything that looks at its age (half the
                # default expiry and more), or even overdue for the sweep but not swept yet
                if j % 9 == 4:
                    g.append(tick(rng.choice([31000, 45000, 59000, 61000, 90000])))
                g.append(run1(frame_fn(v, a, rng)))
            groups.append(g)
            # first-frame context: fresh addresses, table reset per group
            g = [reset(opts)]
            for k, v in enumerate(part):
                g.append(run1(frame_fn(v, base_addr + 0x1000 + k, rng)))
            groups.append(g)
    return groups


def other_format_frames(a, rng):
    """one well-formed frame of every supported format for aircraft a (values arbitrary but valid)"""
    y0, x0 = cpr_encode(52.2572, 3.9194, 0)
    y1, x1 = cpr_encode(52.2578, 3.9199, 1)
    return [
        short(0, enc_alt13(12000), a, rng.getrandbits(14)),
        short(4, enc_alt13(31000), a, rng.getrandbits(14)),
        short(5, enc_squawk(1, 2, 3, 4), a, rng.getrandbits(14)),
        df11(5, a),
        long_(16, enc_alt13(12000), bits_of(rng.getrandbits(56), 56), a),
        df17(5, a, me_ident(4, 3, callsign_codes('TEST123'))),
        df17(5, a, me_surface(7, 20, 1, 40, 0, y0, x0)),
        df17(5, a, me_airpos(11, 0, enc_alt12(35000), 0, y0, x0)),
        df17(5, a, me_airpos(11, 0, enc_alt12(35025), 1, y1, x1)),
        df17(5, a, me_velocity(1, 0, 200, 1, 300, 0, 10)),
        df17(5, a, me_velocity(3, 0, 200, 1, 300, 1, 20)),
        df17(5, a, me_airpos(20, 1, 1000, 0, y0, x0)),
        df17(5, a, me_opstatus(2)),
        df17(5, a, me_raw(28, rng.getrandbits(51))),
        df17(2, a, me_ident(2, 1, callsign_codes('GROUND1')), df=18),
        long_(20, enc_alt13(33000), mb17(1, 1, 1, 1), a),
        long_(20, enc_alt13(33000), mb20(callsign_codes('BDS20CS')), a),
        long_(21, enc_squawk(7, 0, 0, 0), mb40(2000, 2001, 2132), a),
        long_(20, enc_alt13(33000), mb50(40, 300, 220, 5, 215), a),
        long_(21, enc_squawk(2, 0, 0, 0), mb60(500, 280, 190, -20, -21), a),
        long_(20, enc_alt13(33000), mb30(1, 0), a),
    ]


def seg_group(prop, lines, opts):
    """the same lines one per reader run (slot 0) and as a single run (slot 1); TLC compares the two tables under `prop`"""
    return [reset(opts, slot=0), reset(opts, slot=1)] + [run1(l, slot=0) for l in lines] + [runn(lines, slot=1, tag={'pair': 'segp', 'prop': prop})]


def returning(rng, frames, n):
    """a sequence over a few distinct frames that keeps coming back to earlier ones: A B A C B A ..."""
    k = min(len(frames), rng.randrange(2, 5))
    base = rng.sample(frames, k)
    seq = [base[0], base[1], base[0]]
    while len(seq) < n:
        seq.append(rng.choice(base))
    return seq
