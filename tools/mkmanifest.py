#!/usr/bin/env python3
"""Writes MANIFEST.json from the table below (single place to edit)."""
import json, os
ROOT = os.path.dirname(os.path.dirname(os.path.abspath(__file__)))
PROPS = [json.loads(l)['id'] for l in open(os.path.join(ROOT, 'properties.jsonl'))]

TECH = 'TLA+ specification; TLC bounded model check of the group model + TLC trace validation of recorded executions of the real code'
TECH_X = 'TLA+ specification (oracle operators) + TLC trace validation of recorded executions of the real code'
CLAIMED = {
 'C18': dict(text='E1: TLC checks the TCP life-cycle model (spec/Tcp.tla: attempt / refused -> 5 s sleep -> wake / up / deliver / peer ends) over all scripts of <= 3 faults from {refuse, accept+close, accept+frames+close, accept+partial line+reset, accept+partial line+close, accept+junk} followed by a healthy connection: a change of connection state never changes the table, nothing learned is lost, the pause is respected, and (liveness, weak fairness) the healthy connection is eventually up and decoded; Apalache discharges an inductive invariant of the same life-cycle with an unscripted peer (any number of faults, unbounded clock). Conformance: a scripted loopback peer plays the same fault sequences (quick 11, thorough all 258) against the real binary; TLC judges accept times, gaps, liveness of the process and the last refresh.',
             note='refused attempts cannot be observed by the peer directly; the pause is judged from the accept time after the port is reopened (5n s -0.5/+4 s after the previous connection ended, n = consecutive refusals); wall-clock based', ref='5 C18'),
 'C14': dict(text='TLC parses the columns from the printed header and separator and checks, for all 32 -i flag sets x ~40 constructed rows each (all-blank, min, max with every marker, negatives, one-field-only for each optional column, random, non-fitting), every cell text (alignment, number formats, blank when unknown), the line width whenever all values fit, and group presence <=> flag letter; rows are printed by the real LegendHeaders / Planes::print, and refreshes of the real CLI are checked against the implementation\'s own table.',
             note='gutter characters (source markers) are unconstrained; LC / PTH ages accept k and k+1; floats are given values exactly representable at the printed precision', ref='5 C14'),
 'C15': dict(text='TLC checks for constructed tables of 1..6 rows with blanks and ties x -o strings (every key letter, unrecognised letters, two-letter strings) that each aircraft is printed exactly once and that the rows with a non-blank key are monotone in the last recognised key letter (s,a ascending, A descending, others either direction), ascending address when no letter is recognised; also on refreshes of the real CLI.',
             note='the order among rows with equal or blank key is not constrained; letter C is not in the key alphabet of the statement and is not exercised', ref='5 C15'),
 'C11': dict(text='E1: TLC explores the bounded history model (24-frame alphabet over every supported format incl. "no valid value" variants, 2 aircraft, clock steps around the pairing window, -R on/off; depth 3 quick / 4 thorough) and checks that the step rules keep every displayed parameter inside the reference fold of the input history written from the text of C11 (InvFold) and that a step touches one row only. E2-E4: every transition of that model is replayed through the real reader (prefix-tree walk with save/restore, option sets {none,-U} x {-R}) and TLC judges every parameter of the row after every step, plus re-fed frames and random long histories for 1..4 aircraft.',
             note='frames whose single-frame decoding is a listed known finding (Gillham codes) are not in the alphabets; surface squitters and DF18 content are unconstrained; the model explores register-coherent Comm-B outcomes only', ref='5 C11'),
 'C12': dict(text='E1: bounded expiry model (3 aircraft, frames fed in batches of 1/10/11, delete_after 2 s (thorough also 1 and 5), clock steps D-1/D/D+1, each clock step starting a new reader run): InvExpiry = present while heard, stamp = last heard, a stale row survives at most 12 further accepted frames of a run. E2-E4: every maximal path replayed as multi-line reader runs with stamp shifting, -U on/off, plus random schedules over all formats with delete_after in {1,5,60,600,(86400)}; TLC judges key set and stamps after every run.',
             note='elapsed time is simulated by shifting the public stamp fields; each check first verifies this against a real 1.2 s sleep and stops with a tool error if they disagree; the 12-frame bound is counted within one reader run', ref='5 C12'),
 'C13': dict(text='stream pairs (valid stream / same stream with junk lines inserted at every or random positions) run as single multi-line reader runs in two tables; TLC verifies that the accepted-frame subsequences coincide and that the tables are then equal up to stamps and both runs completed.',
             note='junk = empty, NUL, 0x80-0xFF, truncated UTF-8, CR, text, truncated / over-long frames, corrupted squitters, 66 KB lines; acceptance of a non-UTF-8 line containing a full frame is left open', ref='5 C13'),
 'C16': dict(text='E1: InvCount on the history model under -f (none, 17, 4+5). Conformance: per-line judgement that a frame of an unlisted format leaves the table untouched; the real CLI with --update=-1 -c on mixed streams under -f subsets, TLC recomputing the expected "DFn:count" line and the aircraft set of the last refresh from the input lines.',
             note='frames of formats outside the nine supported ones are kept out of the streams (their address notion is not fixed by any property)', ref='5 C16'),
 'C17': dict(text='exhaustive: a row is created for every one of the 2^24 addresses and the run-length encoding of its country code is judged by TLC against the Annex 10 allocation blocks of spec/Country.tla (184 certain blocks, 6 uncertain ones that constrain nothing).',
             note='allocation table written from memory of Annex 10 (no copy offline); its internal consistency (disjoint, prefix aligned) is ASSUMEd; the RLE transform is trusted harness code', ref='5 C17'),
 'C19': dict(text='paired executions: the same history applied to two tables whose option sets differ in one named option; TLC compares the tables after every line (all fields but stamps for -i -o -c -u -M -D, all but distance for -O, the nine listed parameters for -U on valid-value DF4/5/11/17 histories with clock steps).',
             note='-l and a second observer need separate processes (observer is process-global): covered by CLI-level comparison where built; the specification itself never reads -U, so neutrality is by construction at model level and the weight is on the paired traces', ref='5 C19'),
 'C08': dict(text='TLC carries, per aircraft, the latest even and odd airborne-position frames with their receive-time intervals and decides for every position frame whether a position must be decoded (pair < 10 s apart, same NL zone, |lat| < 87: exact integer-lattice global CPR, compared within 2 micro-degrees), kept, or is unconstrained (ambiguous clock, zero CPR field seen); distance judged for pole / same-meridian / opposite-meridian observers. Positions stratified over every NL zone, zone boundaries, equator, antimeridian; delays around 10 s by stamp shifting; -U on/off.',
             note='NL thresholds generated from the closed-form formula (tools/gen_tables.py), cross-checked against the published table by ASSUMEs; general-geometry distance only checked for presence; elapsed time simulated by shifting the public stamp fields', ref='5 C08'),
 'C10': dict(text='per-event TLC validation of every Comm-B derived field: a change requires gate (CA>=4 recorded or -R), advertisement (a BDS 1,7 report seen, or -R), liberal validity of the register and a value within <1 of the Doc 9871 decoding; a strictly valid, plausible, advertised register with no earlier-precedence match must be decoded. MB contents from physical values over full ranges and both signs, plausibility boundaries, cleared status bits, set reserved bits, explicit registers, random; 7 capability states x 9 advert states x 4 option sets.',
             note='two-sided (liberal necessary / strict sufficient) validity as explained in DESIGN 3.4 and Appendix E; the frame that creates a row may contribute the address only', ref='5 C10'),
 'C01': dict(text='class-exhaustive plus randomized conformance to the total reference outcome of the specification: one representative per input class (digit counts, every DF x length, boundary values of every arithmetic field, byte classes) as [line, line, sentinel] through the real reader thread in a build with overflow checks and in a release-like build, under the -U x -R x -f product and two dozen display / numeric option values, and through both CLI binaries; TLC validates: no panic / error, exit 0, every well-formed later line (decided by the oracle) present in the table.',
             note='TLA+ cannot prove absence of panics in Rust; the verdict is bounded-exhaustive over input classes + random, not a proof over all byte strings (DESIGN 7). Non-termination would show as a tool timeout and is investigated by hand.', ref='5 C01'),
 'C02': dict(text='TLC decides for every fed line, from its bytes alone (Clean/Strip/LenAgrees/ParityOK), whether it is a frame; validated per event: a non-frame leaves the table untouched, an accepted nine-format frame appears in the table, the public get_message agrees with the oracle on Some/None and on the digit sequence. Lines: every DF x both lengths x time-stamp prefix, digit counts 0..64, thousands of decorated / case-mixed variants incl. non-ASCII and NUL.',
             note='decoration invariance follows because the oracle reads the digit sequence only and every event is judged against it; acceptance of lines that are not valid UTF-8 is left open (DESIGN 3.4)', ref='5 C02'),
 'C03': dict(text='per-event TLC validation that the set of changed / created rows is within {Address(frame)} for shuffled frames of all nine formats among other aircraft, address 0 dropped, row.icao = key, get_icao = oracle; plus the AP/AA field swept over 2^24 values per format through the public get_icao and judged by TLC in run-length form (thorough: all values, quick: every 61st).',
             note='oracle Address() = AA field or syndrome of the whole frame (nibble-table CRC cross-checked against the bit-serial definition in Vectors.tla); the run-length reduction in the harness is a semantics-free transform but trusted code', ref='5 C03'),
 'C04': dict(text='per-event TLC validation that a DF11/17/18 frame whose syndrome (computed by the TLA+ CRC) is non-zero (DF11: upper 17 bits) leaves the whole table unchanged: all 1-bit, all/sampled 2-bit and random heavier errors on several valid squitters, on empty and populated tables; all burst patterns up to 12 (quick) / 22 (thorough) bits through get_message, accepted variants listed and re-judged by TLC.',
             note='burst sweep uses get_message (the gate) directly; the table-level effect is checked per event for the 1-/2-bit and random patterns', ref='5 C04'),
 'C05': dict(text='TLC validates, per event, that the altitude of the row after every fed DF4/DF20/TC9-18 frame is what the TLA+ oracle (Alt13/Alt12/Gillham, independently validated by Vectors.tla) computes from that frame; quick: stratified codes, thorough: all 8192 AC13 x DF4/DF20 and all 4096 AC12 x TC9..18, update and first-frame contexts, option sets.',
             note='oracle = spec/ModeS.tla (self-checked: Q=1 round trip over all codes, Gillham bijection onto -1200..126700 ft with Gray property); harness projection of Plane.altitude; M=1 codes unconstrained', ref='5 C05'),
 'C06': dict(text='per-event TLC validation of row.squawk against Squawk(ID13) for every fed DF5/DF21 frame and of "unchanged" for every other format; thorough = all 8192 identity codes.',
             note='oracle Squawk() checked by encoder round trip over all 4096 squawks and single-bit meanings', ref='5 C06'),
 'C07': dict(text='per-event TLC validation of callsign / category after identification squitters (all 64 codes x 8 positions, TC1-4 x CA0-7) and of gated BDS 2,0 replies.',
             note='wake-class letter is checked at the rendering level (C14 machinery), here the recorded (TC, CA) pair', ref='5 C07'),
 'C09': dict(text='per-event TLC validation of ground speed (exact integer sqrt), track (exact floor(atan2) via 2^30-scaled sine/cosine table comparison) and vertical rate for TC19 subtype 1/2 frames over boundary products, every field value, all vertical-rate codes, random and lattice sweeps, first and later frames, option sets.',
             note='track oracle exact because atan2 of integer pairs <= 1022 never comes closer than 1.3e-6 deg to a whole degree except on axes/diagonals (handled exactly)', ref='5 C09'),
}
checks = []
for pid in PROPS:
    if pid in CLAIMED:
        c = CLAIMED[pid]
        checks.append({
            'property_id': pid,
            'quick_cmd': './check %s --tier quick' % pid,
            'thorough_cmd': './check %s --tier thorough' % pid,
            'evidence_file': 'evidence/%s.json' % pid,
            'replay_cmd_template': './check %s --replay {path}' % pid,
            'engine': 'tlc-trace',
            'level_claimed': {'category': 'exploration' if pid in ('C14', 'C15', 'C17') else 'model_checking', 'text': c['text'],
                              'design_ref': 'DESIGN.md section ' + c['ref']},
            'level_note': c['note'],
            'technique': TECH_X if pid in ('C14', 'C15', 'C17') else TECH,
        })
na = [{'property_id': p, 'reason': 'check under construction in this round (framework being built property by property); to be claimed when its conformance check and model exist'}
      for p in PROPS if p not in CLAIMED]
m = {
 'version': 1,
 'setup_cmd': './setup.sh',
 'hooks': {'guard': 'squitterator_verif', 'enable': 'harness/.cargo/config.toml passes --cfg squitterator_verif to every crate it builds (including /repo)',
           'baseline_off_cmd': 'cd /repo && cargo test --workspace --no-fail-fast --offline', 'source_commits': [], 'add_only': True},
 'engines': [
  {'name': 'tlc-mc', 'path': 'spec/MC_*.tla', 'serves_properties': sorted(CLAIMED), 'kind_free_text': 'TLC exhaustive exploration of bounded instances of the specification'},
  {'name': 'tlc-trace', 'path': 'spec/TraceCheck.tla', 'serves_properties': sorted(CLAIMED), 'kind_free_text': 'TLC trace validation: recorded executions of the real code are stepped through the specification, every property step predicate evaluated at every event'},
  {'name': 'sqv', 'path': 'harness/', 'serves_properties': sorted(CLAIMED), 'kind_free_text': 'Rust harness driving the real reader loop / public API and recording projected table state'},
 ],
 'checks': checks,
 'not_applicable': na,
 'notes': 'See DESIGN.md. Exit codes: 0 held / 1 VIOLATION / 2 tool error.',
}
json.dump(m, open(os.path.join(ROOT, 'MANIFEST.json'), 'w'), indent=1)
print('claimed', sorted(CLAIMED), 'not applicable', len(na))
