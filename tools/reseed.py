#!/usr/bin/env python3
"""reseed.py [<seeded-id> ...] [--all] [--checks C01,C02]
Regression of the checks against the kept seeded changes: for each seeded/<id>/ apply patch.diff to /repo, run the quick
checks that are recorded as detecting it (or the listed ones; default: the owning property's), undo, and update meta.json.
/repo must be clean; nothing is ever committed there."""
import json, os, subprocess, sys, time
ROOT = os.path.dirname(os.path.dirname(os.path.abspath(__file__)))


def sh(cmd, cwd=None, timeout=7200):
    p = subprocess.run(cmd, shell=True, cwd=cwd, stdout=subprocess.PIPE, stderr=subprocess.STDOUT, text=True, timeout=timeout)
    return p.returncode, p.stdout


def main():
    ids, checks = [], None
    a = sys.argv[1:]
    i = 0
    while i < len(a):
        if a[i] == '--all':
            ids = sorted(os.listdir(os.path.join(ROOT, 'seeded')))
        elif a[i] == '--checks':
            checks = a[i + 1].split(','); i += 1
        else:
            ids.append(a[i])
        i += 1
    missed = []
    for sid in ids:
        sd = os.path.join(ROOT, 'seeded', sid)
        mp = os.path.join(sd, 'meta.json')
        meta = json.load(open(mp))
        todo = checks or [c for c in meta.get('detected_by', [])][:1] or [meta['property']]
        rc, out = sh('git -C /repo status --porcelain')
        if out.strip():
            print('/repo is not clean, refusing'); return 2
        rc, out = sh('git -C /repo apply %s' % os.path.join(sd, 'patch.diff'))
        if rc != 0:
            print(sid, 'patch does not apply:', out[:200]); missed.append(sid); continue
        try:
            for c in todo:
                t0 = time.time()
                rc, out = sh('./check %s --tier quick' % c, cwd=ROOT)
                viol = [l for l in out.split('\n') if l.startswith('VIOLATION')]
                meta.setdefault('checks', {})[c] = {'exit': rc, 'violations': [v[:300] for v in viol[:8]], 'n_violation_lines': len(viol),
                                                    'wall_s': round(time.time() - t0, 1), 'reevaluated': time.strftime('%Y-%m-%dT%H:%M:%SZ', time.gmtime())}
                print('%s: %s exit %d, %d violation lines, %.0fs' % (sid, c, rc, len(viol), time.time() - t0), flush=True)
                if rc not in (0, 1):
                    print(out[-800:])
        finally:
            sh('git -C /repo checkout -- .')
        meta['detected_by'] = sorted(c for c, r in meta['checks'].items() if r['exit'] == 1)
        if not meta['detected_by']:
            missed.append(sid)
        json.dump(meta, open(mp, 'w'), indent=1)
    print('not detected:', missed)
    return 0


if __name__ == '__main__':
    sys.exit(main())
