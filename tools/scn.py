"""Scenarios emitted by TLC (one per explored transition of a bounded model) -> harness command shards.
The scenarios share prefixes; they are executed as a depth-first walk of the prefix tree with the
harness's save/restore, so every model transition costs one reader run."""
import os, re
import vlib
from gen import reset, run1, tick

SCN = re.compile(r'^<<"SCN", <<(.*)>>>>$')


def parse_literal_alphabet(group):
    """hex lines of spec/L_<group>.tla (the literal alphabet the model used)"""
    out = []
    for line in open(os.path.join(vlib.SPEC, 'L_%s.tla' % group)):
        m = re.match(r'\s*<<([\d,\s]*)>>', line)
        if m:
            out.append(''.join('%X' % int(x) for x in m.group(1).split(',') if x.strip()))
    return out


def parse_scenarios(out):
    scs = set()
    for line in out.split('\n'):
        m = SCN.match(line.strip())
        if m:
            body = m.group(1).strip()
            scs.add(tuple(int(x) for x in body.split(',')) if body else ())
    return scs


def trie_of(scs):
    root = {}
    for sc in scs:
        n = root
        for step in sc:
            n = n.setdefault(step, {})
    return root


def step_cmd(step, alpha):
    return tick(-step) if step < 0 else run1(alpha[step - 1])


def walk(node, alpha, depth, out):
    kids = sorted(node.items())
    many = len(kids) > 1
    if many:
        out.append({'c': 'save', 'id': depth})
    for j, (step, child) in enumerate(kids):
        out.append(step_cmd(step, alpha))
        walk(child, alpha, depth + 1, out)
        if many and j + 1 < len(kids):
            out.append({'c': 'restore', 'id': depth})


def groups_from_trie(root, alpha, opts, split_depth=2):
    """one self-contained group per subtree at split_depth (prefix replayed from a reset)"""
    groups = []

    def rec(node, prefix, d):
        if d == split_depth or not node:
            g = [reset(opts)] + [step_cmd(s, alpha) for s in prefix]
            walk(node, alpha, d, g)
            groups.append(g)
            return
        # the prefix itself is also a scenario whose last step must be executed: covered by the children's groups
        for step, child in sorted(node.items()):
            rec(child, prefix + [step], d + 1)
    rec(root, [], 0)
    return groups


def count_edges(node):
    return sum(1 + count_edges(c) for c in node.values())
