#!/usr/bin/env python3
"""seedtest.py <worktree> <prop> <n> [--checks C01,C02] [--tier quick]
Confirms a sub-agent's mutant (in <worktree>/mutant/<n>/) and runs our checks against it:
 1. in the scratch worktree: patch applies, project builds, the 66 existing tests pass with the patch,
    the demonstration fails with the patch and passes without it;
 2. in /repo: apply the patch, run the listed checks (default: the owning property's quick check), undo.
Stores patch, demo and meta.json under /verif/seeded/<prop>-<n>/ when step 1 is confirmed."""
import json, os, shutil, subprocess, sys, time
ROOT = os.path.dirname(os.path.dirname(os.path.abspath(__file__)))


def sh(cmd, cwd=None, timeout=3600):
    p = subprocess.run(cmd, shell=True, cwd=cwd, stdout=subprocess.PIPE, stderr=subprocess.STDOUT, text=True, timeout=timeout)
    return p.returncode, p.stdout


def main():
    wt, prop, n = sys.argv[1], sys.argv[2], sys.argv[3]
    checks = [prop]
    tier = 'quick'
    for i, a in enumerate(sys.argv):
        if a == '--checks':
            checks = sys.argv[i + 1].split(',')
        if a == '--tier':
            tier = sys.argv[i + 1]
    md = os.path.join(wt, 'mutant', n)
    patch = os.path.join(md, 'patch.diff')
    demo = [f for f in os.listdir(md) if f.startswith('demo')]
    meta = {'property': prop, 'mutant': n, 'source_worktree': wt, 'ran': []}
    # ---- step 1: confirm in the scratch worktree
    sh('git checkout -- src && rm -rf tests', cwd=wt)
    rc, out = sh('git apply --check %s' % patch, cwd=wt)
    meta['applies'] = rc == 0
    if rc != 0:
        print('patch does not apply:', out); return 2
    demo_rs = [d for d in demo if d.endswith('.rs')]
    demo_sh = [d for d in demo if d.endswith('.sh')]

    def run_demo():
        if demo_rs:
            os.makedirs(os.path.join(wt, 'tests'), exist_ok=True)
            shutil.copy(os.path.join(md, demo_rs[0]), os.path.join(wt, 'tests', 'demo.rs'))
            rc, out = sh('cargo test --offline --test demo 2>&1 | tail -30', cwd=wt)
            ok = 'test result: ok' in out
            shutil.rmtree(os.path.join(wt, 'tests'), ignore_errors=True)
            return ok, out[-1500:]
        elif demo_sh:
            sh('cargo build --offline 2>&1 | tail -2', cwd=wt)
            rc, out = sh('bash %s' % os.path.join(md, demo_sh[0]), cwd=wt)
            return rc == 0, out[-1500:]
        return None, 'no demo'
    base_ok, base_out = run_demo()
    sh('git apply %s' % patch, cwd=wt)
    rc, out = sh('cargo test --offline --lib 2>&1 | grep -E "test result|error" | head -3', cwd=wt)
    meta['suite_passes_with_patch'] = 'ok. 66 passed' in out
    mut_ok, mut_out = run_demo()
    sh('git checkout -- src && rm -rf tests', cwd=wt)
    meta['demo_passes_without_patch'] = base_ok
    meta['demo_fails_with_patch'] = (mut_ok is False)
    meta['ran'].append('scratch worktree: git apply; cargo test --offline --lib (66 tests); cargo test --offline --test demo with and without the patch')
    confirmed = meta['applies'] and meta['suite_passes_with_patch'] and base_ok and mut_ok is False
    meta['confirmed'] = bool(confirmed)
    print('confirmed=%s suite=%s demo_base=%s demo_mut=%s' % (confirmed, meta['suite_passes_with_patch'], base_ok, mut_ok))
    if not confirmed:
        print(base_out[-600:]); print(mut_out[-600:])
    # ---- step 2: our checks against /repo with the patch
    rc, out = sh('git -C /repo status --porcelain')
    if out.strip():
        print('/repo is not clean, refusing'); return 2
    rc, out = sh('git -C /repo apply %s' % patch)
    if rc != 0:
        print('patch does not apply to /repo', out); return 2
    results = {}
    try:
        for c in checks:
            t0 = time.time()
            rc, out = sh('./check %s --tier %s' % (c, tier), cwd=ROOT, timeout=7200)
            viol = [l for l in out.split('\n') if l.startswith('VIOLATION')]
            results[c] = {'exit': rc, 'violations': [v[:300] for v in viol[:8]], 'n_violation_lines': len(viol), 'wall_s': round(time.time() - t0, 1),
                          'tool_error': [l[:300] for l in out.split('\n') if l.startswith('TOOL-ERROR')][:2]}
            print('%s: exit %d, %d violation lines, %.0fs' % (c, rc, len(viol), time.time() - t0))
            if rc not in (0, 1):
                print(out[-1500:])
            for v in viol[:4]:
                print('   ', v[:200])
    finally:
        sh('git -C /repo checkout -- . && git -C /repo clean -fdq tests 2>/dev/null; true')
    meta['checks'] = results
    meta['detected_by'] = sorted(c for c, r in results.items() if r['exit'] == 1)
    meta['ran'].append('/repo: git apply patch; ' + '; '.join('./check %s --tier %s' % (c, tier) for c in checks) + '; git checkout -- .')
    if confirmed:
        sd = os.path.join(ROOT, "seeded", "%s-%s%s" % (prop, os.environ.get("SEED_ROUND", ""), n))
        os.makedirs(sd, exist_ok=True)
        shutil.copy(patch, os.path.join(sd, 'patch.diff'))
        for d in demo:
            shutil.copy(os.path.join(md, d), os.path.join(sd, d))
        if os.path.exists(os.path.join(md, 'README.md')):
            meta['needs'] = open(os.path.join(md, 'README.md')).read()[:3000]
        old = {}
        mp = os.path.join(sd, 'meta.json')
        if os.path.exists(mp):
            old = json.load(open(mp))
            old_checks = old.get('checks', {})
            old_checks.update(results)
            meta['checks'] = old_checks
            meta['detected_by'] = sorted(c for c, r in old_checks.items() if r['exit'] == 1)
        json.dump(meta, open(mp, 'w'), indent=1)
    return 0


if __name__ == '__main__':
    sys.exit(main())
