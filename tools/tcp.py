"""A scripted loopback peer for C18: plays a fault sequence followed by a healthy connection against the
real CLI binary (`-t 127.0.0.1:port --update=-1`) and records what happened (times in ms since launch)."""
import os, socket, struct, subprocess, threading, time
import cli
from frames import df17, short, me_ident, callsign_codes, enc_alt13

FAULTS = ['refuse', 'close', 'frames', 'partial', 'partialfin', 'junk']


def free_port():
    s = socket.socket()
    s.bind(('127.0.0.1', 0))
    p = s.getsockname()[1]
    s.close()
    return p


def listener(port):
    s = socket.socket()
    s.setsockopt(socket.SOL_SOCKET, socket.SO_REUSEADDR, 1)
    s.bind(('127.0.0.1', port))
    s.listen(4)
    return s


def frames_for(k):
    # the first line of every connection belongs to an aircraft that is heard only there, once
    a, b = 0x4f0000 + k, 0x4f1000 + k
    return [df17(5, b, me_ident(4, 1, callsign_codes('ONE%d' % k))), df17(5, a, me_ident(4, 1, callsign_codes('TCP%d' % k))),
            short(4, enc_alt13(10000 + 1000 * k), a)]


def run_scenario(binary, faults, idx):
    # a socket-level accident on the peer's side (port taken in the meantime, ...) says nothing about the decoder: play the
    # scenario again on another port, and give up as a tool error if that fails too
    last = None
    for attempt in range(3):
        try:
            return run_scenario_once(binary, faults, idx)
        except OSError as e:
            last = e
            time.sleep(0.5 + attempt)
    from vlib import ToolError
    raise ToolError('tcp peer failed three times for %s: %r' % (list(faults), last))


def run_scenario_once(binary, faults, idx):
    port = free_port()
    seq = list(faults) + ['healthy']
    t0 = time.time()
    ms = lambda: int((time.time() - t0) * 1000)
    ls = None if seq[0] == 'refuse' else listener(port)
    # 'long' = 'frames' on a connection that stays up longer than delete_after (here 8 s), its aircraft heard every second
    dopt = ['-d', '8'] if 'long' in seq else []
    if idx % 2 == 0:
        dopt += ['-c']            # every other scenario with the DF counters on (they see every frame, also those of formats 24-31)
    proc = subprocess.Popen([binary, '-t', '127.0.0.1:%d' % port, '--update=-1', '-i', 'e'] + dopt, stdout=subprocess.PIPE, stderr=subprocess.DEVNULL)
    buf = bytearray()

    def pump():
        while True:
            b = proc.stdout.read1(65536) if hasattr(proc.stdout, 'read1') else proc.stdout.read(4096)
            if not b:
                break
            buf.extend(b)
    th = threading.Thread(target=pump, daemon=True)
    th.start()
    conns, noaccept = [], False
    t_prev_end = 0
    i = 0
    k = 0
    try:
        while i < len(seq):
            n_ref = 0
            while seq[i] == 'refuse':
                n_ref += 1
                i += 1
            if n_ref:
                # keep the port closed long enough for exactly n_ref attempts (at t_prev_end + 0, 5, 10, ... s) to fail
                target = t_prev_end / 1000.0 + (n_ref - 1) * 5.0 + 1.5
                while time.time() - t0 < target:
                    time.sleep(0.05)
                ls = listener(port)
                t_open = ms()
            else:
                t_open = None
                if ls is None:
                    ls = listener(port)
            kind = seq[i]
            k += 1
            ls.settimeout(12.0)
            try:
                c, _ = ls.accept()
            except socket.timeout:
                noaccept = True
                break
            t_acc = ms()
            rec = {'kind': kind, 't_accept': t_acc, 't_prev_end': t_prev_end, 'refused_before': n_ref, 't_open': t_open if t_open is not None else -1,
                   'lines': [], 'partial': []}
            lines = [list(l.encode()) for l in frames_for(k)]
            if kind == 'junk':
                stamp = b'@00A1B2C3D4E'
                lines = [list(range(0x80, 0x100)), [0, 1, 2, 255], list(stamp) + [0xFF] + list(lines[0]), list(stamp[:-1]) + [0xC3, 0xA9] + list(lines[1]) + [59]] + \
                    lines + [[0xC3, 0x28], [64] + [0xE2, 0x82, 0xAC] * 6] + \
                    [list(('%02X' % ((dfx << 3) | 5) + '955260402C50160D455A500868'[:26]).encode()) for dfx in (24, 25, 27, 31, 19, 22)]
            payload = b''
            if kind != 'close':
                payload = b''.join(bytes(l) + b'\n' for l in lines)
                rec['lines'] = lines
            if kind == 'partial':
                part = list(b'8D4840D6202CC371C3')          # a truncated frame without line end
                payload += bytes(part)
                rec['partial'] = part
            if kind == 'partialfin':
                # closed (FIN, not reset) in the middle of a line: the bytes received so far are a malformed line - here a
                # complete 56-bit reply of an aircraft nobody heard plus one more digit of whatever was to follow
                part = list((short(4, enc_alt13(20000 + 100 * k), 0x4f2000 + k) + '8').encode())
                if k % 3 == 1:       # ... or the first 14 digits of an extended squitter (a long format cut to the length of a short one)
                    part = list(df17(5, 0x4f2000 + k, me_ident(4, 1, callsign_codes('CUT%d' % k)))[:14].encode())
                elif k % 3 == 2:     # ... or the same behind a time stamp
                    part = list(('@%012X' % (k * 7919) + df17(5, 0x4f2000 + k, me_ident(4, 1, callsign_codes('CUT%d' % k)))[:14]).encode())
                payload += bytes(part)
                rec['partial'] = part
            if payload:
                try:
                    c.sendall(payload)
                except OSError:
                    pass              # the decoder went away: liveness and reconnection are judged from what follows
            if kind == 'healthy':
                # wait until the last refresh lists the new aircraft (or give up after 6 s)
                want = ('%06X' % (0x4f0000 + k)).encode()
                t_end = time.time() + 6
                while time.time() < t_end:
                    chunks = bytes(buf).split(cli.CLEAR)
                    if chunks and want in chunks[-1]:
                        break
                    time.sleep(0.05)
                time.sleep(0.2)
                rec['t_end'] = ms()
                conns.append(rec)
                c_keep = c
                break
            if kind == 'long':
                for _ in range(9):
                    time.sleep(1.0)
                    try:
                        c.sendall(payload)
                    except OSError:
                        break
                rec['kind'] = 'frames'
                rec['held_ms'] = 9000
            time.sleep(0.3)                                  # let the decoder read what was sent
            nxt_refuse = seq[i + 1] == 'refuse'
            if nxt_refuse:
                ls.close()
                ls = None
            if kind == 'partial':
                c.setsockopt(socket.SOL_SOCKET, socket.SO_LINGER, struct.pack('ii', 1, 0))   # RST
            c.close()
            rec['t_end'] = ms()
            t_prev_end = rec['t_end']
            conns.append(rec)
            i += 1
        alive = proc.poll() is None
    finally:
        try:
            proc.kill()
        except OSError:
            pass
        proc.wait()
        th.join(timeout=2)
        if ls is not None:
            ls.close()
    snaps = [s for s in cli.snapshots(bytes(buf)) if 'rows' in s]
    last = snaps[-1] if snaps else None
    return {'e': 'tcp', 'i': idx, 'faults': list(faults), 'conns': conns, 'noaccept': noaccept, 'alive': alive, 'nsnaps': len(snaps),
            'last': [] if last is None else [{'rows': [cli.cps(x) for x in last['rows']]}]}


def run_refresh_scenario(binary, u, gaps, idx, jitter=250):
    """a timed feed for the refresh schedule (drift mode): one applied frame after each gap (seconds); after each frame the
    peer waits longer than the jitter allowance and records whether a new refresh has appeared on stdout"""
    port = free_port()
    ls = listener(port)
    t0 = time.time()
    ms = lambda: int((time.time() - t0) * 1000)
    uopt = ['-u', str(u)] if u >= 0 else ['--update=%d' % u]
    proc = subprocess.Popen([binary, '-t', '127.0.0.1:%d' % port, '-i', ''] + uopt, stdout=subprocess.PIPE, stderr=subprocess.DEVNULL)
    buf = bytearray()

    def pump():
        while True:
            b = proc.stdout.read1(65536)
            if not b:
                break
            buf.extend(b)
    th = threading.Thread(target=pump, daemon=True)
    th.start()
    frames = []
    try:
        ls.settimeout(12.0)
        c, _ = ls.accept()
        t_acc = ms()
        nsn = len([s_ for s_ in cli.snapshots(bytes(buf)) if 'rows' in s_])
        for k, g in enumerate(gaps):
            time.sleep(g)
            fr = df17(5, 0x4f4000 + k, me_ident(4, 1, callsign_codes('RF%d' % k)))
            t_send = ms()
            c.sendall(fr.encode() + b'\n')
            time.sleep((jitter + 100) / 1000.0)
            n2 = len([s_ for s_ in cli.snapshots(bytes(buf)) if 'rows' in s_])
            frames.append({'t': t_send, 'refreshed': n2 > nsn, 'new': n2 - nsn})
            nsn = n2
        alive = proc.poll() is None
    finally:
        try:
            proc.kill()
        except OSError:
            pass
        proc.wait()
        th.join(timeout=2)
        ls.close()
    return {'e': 'refresh', 'i': idx, 'u': u, 't0': t_acc, 'jitter': jitter, 'frames': frames, 'alive': alive}
