#!/bin/sh
# TLC with a large stack for the *main* thread too (ASSUMEs and constant folding run there; a
# stack size given through JAVA_TOOL_OPTIONS reaches only threads created later).
# Env: TLC_XMX (default 4g), TLC_OPTS (extra JVM options), TLC_TMPDIR (where TLC unpacks its standard modules; default /tmp).
exec java -Xss1g -Xmx${TLC_XMX:-4g} -XX:+UseParallelGC -Djava.io.tmpdir="${TLC_TMPDIR:-/tmp}" ${TLC_OPTS:-} \
  -cp /opt/veriftools/tla/tla2tools.jar:/opt/veriftools/tla/CommunityModules-deps.jar tlc2.TLC "$@"
