#!/usr/bin/env python3
"""Validates MANIFEST.json and evidence/*.json against the task's schemas (needs jsonschema: run with python3-vt)."""
import json, glob, sys
import jsonschema
ok = True
m = json.load(open('/verif/MANIFEST.json'))
try:
    jsonschema.validate(m, json.load(open('/root/.vp/MANIFEST.schema.json')))
    print('MANIFEST.json ok: %d checks, not_applicable=%s' % (len(m['checks']), m.get('not_applicable')))
except jsonschema.ValidationError as e:
    ok = False
    print('MANIFEST.json INVALID:', e.message)
es = json.load(open('/root/.vp/EVIDENCE.schema.json'))
for f in sorted(glob.glob('/verif/evidence/*.json')):
    e = json.load(open(f))
    try:
        jsonschema.validate(e, es)
        print('%s ok tier=%s violations=%s wall=%ss nontrivial=%s' % (f.split('/')[-1], e.get('tier'), e.get('violations'), e.get('wall_s'), e['coverage'].get('distinct_nontrivial')))
    except jsonschema.ValidationError as x:
        ok = False
        print(f, 'INVALID:', x.message)
sys.exit(0 if ok else 1)
