"""Driver library: build, execute scenarios against the real code, validate traces with TLC,
subtract known findings, write evidence.  Exit codes: 0 held, 1 violation, 2 tool error."""
import json, os, re, shutil, subprocess, sys, time, hashlib, concurrent.futures as cf

ROOT = os.path.dirname(os.path.dirname(os.path.abspath(__file__)))
REPO = os.environ.get('VERIF_REPO', '/repo')
BUILD = os.path.join(ROOT, '.build')
SPEC = os.path.join(ROOT, 'spec')
TLC = os.path.join(ROOT, 'tools', 'tlc.sh')
NPROC = int(os.environ.get('VERIF_JOBS', '16'))


class ToolError(Exception):
    pass


def log(*a):
    print(*a, file=sys.stderr, flush=True)


def seed():
    try:
        return int(os.environ.get('VERIF_SEED', '1'))
    except ValueError:
        return 1


_workdir = None


def workdir(tag='w'):
    global _workdir
    if _workdir is None:
        _workdir = os.path.join(ROOT, '.work', '%s-%d' % (tag, os.getpid()))
        shutil.rmtree(_workdir, ignore_errors=True)
        os.makedirs(_workdir)
        # TLC unpacks its standard modules into a fresh directory under java.io.tmpdir at every start and leaves it there:
        # point it (tools/tlc.sh reads TLC_TMPDIR) into the scratch directory, which is removed on exit
        os.makedirs(os.path.join(_workdir, 'jtmp'), exist_ok=True)
        os.environ['TLC_TMPDIR'] = os.path.join(_workdir, 'jtmp')
    return _workdir


def cleanup():
    if _workdir and not os.environ.get('VERIF_KEEP'):
        shutil.rmtree(_workdir, ignore_errors=True)


# ------------------------------------------------------------------------------------------ build
def _run(cmd, cwd=None, timeout=1800, env=None):
    e = dict(os.environ)
    e['CARGO_NET_OFFLINE'] = 'true'
    if env:
        e.update(env)
    p = subprocess.run(cmd, cwd=cwd, stdout=subprocess.PIPE, stderr=subprocess.STDOUT, text=True, timeout=timeout, env=e)
    return p.returncode, p.stdout


def build_harness(profile):
    """profile: 'checked' (overflow checks, debug assertions) or 'release' (release-like)."""
    hd = os.path.join(ROOT, 'harness')
    cmd = ['cargo', 'build', '--offline', '--quiet'] + (['--release'] if profile == 'release' else [])
    rc, out = _run(cmd, cwd=hd)
    if rc != 0:
        raise ToolError('harness build failed (%s):\n%s' % (profile, out[-3000:]))
    return os.path.join(BUILD, 'harness', 'release' if profile == 'release' else 'debug', 'sqv')


def build_cli(profile):
    """the repository's own binary: 'dev' (overflow checks on) or 'release' (the repository's profile)."""
    td = os.path.join(BUILD, 'cli')
    cmd = ['cargo', 'build', '--offline', '--quiet', '--manifest-path', os.path.join(REPO, 'Cargo.toml'),
           '--target-dir', td, '--bin', 'squitterator'] + (['--release'] if profile == 'release' else [])
    rc, out = _run(cmd, cwd=REPO)
    if rc != 0:
        raise ToolError('cli build failed (%s):\n%s' % (profile, out[-3000:]))
    return os.path.join(td, 'release' if profile == 'release' else 'debug', 'squitterator')


# ---------------------------------------------------------------------------------------- execute
def write_ndjson(path, items):
    with open(path, 'w') as f:
        for it in items:
            f.write(json.dumps(it, separators=(',', ':')))
            f.write('\n')


def read_ndjson(path):
    with open(path) as f:
        return [json.loads(l) for l in f if l.strip()]


def sqv_exec(binary, cmds, name, timeout=1200):
    """run one scenario (list of command dicts); returns the trace path"""
    wd = workdir()
    sc = os.path.join(wd, name + '.scn.ndjson')
    tr = os.path.join(wd, name + '.trace.ndjson')
    seg = os.path.join(wd, name + '.seg')
    write_ndjson(sc, cmds)
    p = subprocess.run([binary, 'exec', sc, tr, seg], stdout=subprocess.DEVNULL, stderr=subprocess.PIPE, text=True, timeout=timeout)
    pend = os.path.join(seg, 'segment.txt.pending')
    if p.returncode != 0:
        # the code under test took the harness process down (stack overflow, abort): that is data - the run that was in
        # flight becomes an event that did not complete, and the rest of the scenario is not executed
        pe = None
        if (p.returncode < 0 or p.returncode in (134, 139)) and os.path.exists(pend):
            with open(pend) as f:
                pe = json.load(f)
            last_i = 0
            with open(tr) as f:
                for line in f:
                    if line.strip():
                        last_i = json.loads(line)['i']
            if last_i != pe['i'] - 1:
                pe = None
        if pe is None:
            shutil.rmtree(seg, ignore_errors=True)
            raise ToolError('sqv exec %s failed: rc=%s %s' % (name, p.returncode, p.stderr[-2000:]))
        pe['out'] = 'crash: harness process ended with status %d during this run: %s' % (p.returncode, p.stderr[-300:])
        with open(tr, 'a') as f:
            f.write(json.dumps(pe) + '\n')
            f.write(json.dumps({'e': 'abort', 'why': 'crash', 'i': pe['i'] + 1}) + '\n')
    shutil.rmtree(seg, ignore_errors=True)
    return tr


def exec_shards(binary, shards, prefix):
    """shards: list of command lists, each self-contained (starts with reset). Parallel."""
    with cf.ThreadPoolExecutor(max_workers=NPROC) as ex:
        futs = [ex.submit(sqv_exec, binary, s, '%s%03d' % (prefix, i)) for i, s in enumerate(shards)]
        return [f.result() for f in futs]


# --------------------------------------------------------------------------------------- validate
TUPLE = re.compile(r'^<<\s*"(VIOL|NT|DONE|TOOLERR|UNCONSUMED|STAT)"')


def _parse_tlc(out):
    """collect printed tuples (possibly wrapped over several lines)"""
    recs, buf = [], None
    for line in out.split('\n'):
        if buf is None:
            if TUPLE.match(line):
                buf = line
        else:
            buf += ' ' + line.strip()
        if buf is not None and buf.rstrip().endswith('>>') and buf.count('<<') == buf.count('>>'):
            recs.append(buf)
            buf = None
    res = []
    for r in recs:
        body = r.strip()[2:-2]
        parts = [p.strip() for p in re.findall(r'"(?:[^"\\]|\\.)*"|-?\d+|TRUE|FALSE', body)]
        res.append([p[1:-1] if p.startswith('"') else (int(p) if re.match(r'-?\d+$', p) else p) for p in parts])
    return res


def tlc_trace(trace, prop, name=None, timeout=3600, xmx='3g'):
    wd = workdir()
    name = name or os.path.basename(trace)
    md = os.path.join(wd, 'md-' + name)
    env = dict(os.environ, TRACE=trace, PROP=prop, TLC_XMX=xmx)
    cmd = [TLC, '-workers', '1', '-metadir', md, '-cleanup', '-noGenerateSpecTE', '-config',
           os.path.join(SPEC, 'TraceCheck.cfg'), os.path.join(SPEC, 'TraceCheck.tla')]
    t0 = time.time()
    try:
        p = subprocess.run(cmd, cwd=SPEC, stdout=subprocess.PIPE, stderr=subprocess.STDOUT, text=True, timeout=timeout, env=env)
    except subprocess.TimeoutExpired:
        raise ToolError('TLC timed out on %s' % trace)
    shutil.rmtree(md, ignore_errors=True)
    out = p.stdout
    recs = _parse_tlc(out)
    r = {'trace': trace, 'viol': [], 'nt': [], 'done': 0, 'toolerr': [], 'wall': time.time() - t0, 'states': 0}
    for x in recs:
        if x[0] == 'VIOL':
            r['viol'].append({'prop': x[1], 'pred': x[2], 'i': x[3], 'tag': x[4] if len(x) > 4 else '', 'trace': trace})
        elif x[0] == 'NT':
            r['nt'].append(x[2])
        elif x[0] == 'DONE':
            r['done'] = x[1]
        elif x[0] in ('TOOLERR', 'UNCONSUMED'):
            r['toolerr'].append(x)
    m = re.search(r'(\d+) states generated, (\d+) distinct states found', out)
    if m:
        r['states'] = int(m.group(2))
    ok = 'Model checking completed. No error has been found.' in out
    if not ok or r['toolerr'] or not r['done']:
        tail = '\n'.join(out.split('\n')[-40:])
        raise ToolError('TLC did not validate %s cleanly (prop %s):\n%s' % (trace, prop, tail[-4000:]))
    return r


def validate(traces, prop):
    with cf.ThreadPoolExecutor(max_workers=NPROC) as ex:
        futs = [ex.submit(tlc_trace, t, prop) for t in traces]
        return [f.result() for f in futs]


def tlc_model(module, cfg=None, workers=NPROC, timeout=3600, xmx='12g', extra=None, env=None, coverage=False):
    """run a bounded model (MC_*.tla); returns dict with states, transitions, coverage, output"""
    wd = workdir()
    md = os.path.join(wd, 'mc-%s-%s' % (module, (cfg or 'x').replace('.', '_')))
    e = dict(os.environ, TLC_XMX=xmx)
    if env:
        e.update(env)
    cmd = [TLC, '-workers', str(workers), '-metadir', md, '-cleanup', '-noGenerateSpecTE'] + (['-coverage', '1'] if coverage else []) + [
           '-config', os.path.join(SPEC, cfg or (module + '.cfg')), os.path.join(SPEC, module + '.tla')] + (extra or [])
    t0 = time.time()
    try:
        p = subprocess.run(cmd, cwd=SPEC, stdout=subprocess.PIPE, stderr=subprocess.STDOUT, text=True, timeout=timeout, env=e)
    except subprocess.TimeoutExpired:
        raise ToolError('TLC timed out on model %s' % module)
    shutil.rmtree(md, ignore_errors=True)
    out = p.stdout
    r = {'module': module, 'out': out, 'wall': time.time() - t0, 'ok': 'No error has been found' in out}
    m = re.search(r'(\d+) states generated, (\d+) distinct states found', out)
    r['transitions'] = int(m.group(1)) if m else 0
    r['states'] = int(m.group(2)) if m else 0
    m = re.search(r'depth of the complete state graph search is (\d+)', out)
    r['depth'] = int(m.group(1)) if m else 0
    r['violated'] = re.findall(r'(?:Invariant|Action property|Temporal properties?) (\S+) (?:is|was|were) violated', out)
    r['printed'] = _parse_generic(out)
    return r


def _parse_generic(out):
    """tuples printed by models: <<"TAG", ...>> single line"""
    res = []
    for line in out.split('\n'):
        if line.startswith('<<"') and line.rstrip().endswith('>>'):
            res.append(line.rstrip())
    return res


# ------------------------------------------------------------------------------- known findings
def load_known():
    p = os.path.join(ROOT, 'known_findings.json')
    if not os.path.exists(p):
        return {'known': [], 'fixed': []}
    with open(p) as f:
        return json.load(f)


def match_known(v, known):
    for k in known.get('known', []):
        if k['property'] != v['prop']:
            continue
        m = dict(k.get('match', {}))
        tags = m.pop('tags', None)
        if tags is not None and v.get('tag') not in tags:
            continue
        if all(v.get(kk) == vv for kk, vv in m.items()):
            return k
    return None


# ---------------------------------------------------------------------------------------- report
class Report:
    def __init__(self, prop, tier, level='model_checking'):
        self.prop, self.tier, self.level = prop, tier, level
        self.t0 = time.time()
        self.evaluations = 0
        self.nontrivial = set()
        self.samples = []
        self.traces = 0
        self.states = 0
        self.transitions = 0
        self.viol = []          # unlisted violations
        self.known_hits = {}    # what -> count
        self.notes = []
        self.extra = {}
        self.assumptions = []
        self.rule = ''
        self.exhaustive = False
        self.models = []

    def add_validation(self, results, key_fn=None):
        """results from validate(); key_fn(event) -> hashable identity of the case (for distinct counting)"""
        known = load_known()
        for r in results:
            evs = None
            self.traces += 1
            self.evaluations += r['done']
            nts = set(r['nt'])
            need = nts or r['viol']
            if need:
                evs = {e['i']: e for e in read_ndjson(r['trace'])}
            for i in nts:
                e = evs.get(i)
                k = key_fn(e) if key_fn else default_key(e)
                self.nontrivial.add(k)
                if len(self.samples) < 3 and e is not None:
                    self.samples.append(sample_of(e))
            for v in r['viol']:
                k = match_known(v, known)
                if k:
                    self.known_hits[k['what']] = self.known_hits.get(k['what'], 0) + 1
                else:
                    v = dict(v)
                    v['event'] = evs.get(v['i']) if evs else None
                    self.viol.append(v)

    def add_model(self, r, what):
        self.states += r['states']
        self.transitions += r['transitions']
        self.models.append({'module': r['module'], 'what': what, 'states': r['states'], 'transitions': r['transitions'],
                            'depth': r['depth'], 'wall_s': round(r['wall'], 1)})
        if not r['ok']:
            if r['violated']:
                self.viol.append({'prop': self.prop, 'pred': 'model:' + ','.join(r['violated']), 'i': 0, 'tag': r['module'],
                                  'trace': None, 'event': None, 'model_output': r['out'][-3000:]})
            else:
                raise ToolError('model %s failed:\n%s' % (r['module'], r['out'][-3000:]))

    def finish(self):
        """prints verdict lines, writes evidence, returns exit code"""
        os.makedirs(os.path.join(ROOT, 'evidence'), exist_ok=True)
        for what, n in sorted(self.known_hits.items()):
            print('KNOWN-FINDING: property=%s %s (%d events)' % (self.prop, what, n))
        rc = 0
        if self.viol:
            rc = 1
            rd = os.path.join(ROOT, 'replays')
            os.makedirs(rd, exist_ok=True)
            groups = {}
            for v in self.viol:
                groups.setdefault((v['pred'], v['tag']), []).append(v)
            for n, ((pred, tag), vs) in enumerate(sorted(groups.items(), key=lambda kv: str(kv[0]))):
                v = vs[0]
                path = os.path.join(rd, '%s-%s-%d.json' % (self.prop, re.sub(r'[^A-Za-z0-9_.-]', '_', '%s-%s' % (pred, tag))[:60], n))
                with open(path, 'w') as f:
                    json.dump({'property': self.prop, 'predicate': pred, 'tag': tag, 'count': len(vs),
                               'scenario': scenario_of(v), 'event': v.get('event'), 'model_output': v.get('model_output')}, f)
                print('VIOLATION property=%s replay=%s predicate=%s tag=%s count=%d' % (self.prop, path, pred, tag, len(vs)))
        cov = {
            'evaluations': self.evaluations,
            'distinct_nontrivial': len(self.nontrivial),
            'rule': self.rule,
            'samples': self.samples[:3] or [{'note': 'no sample recorded'}],
            'traces_validated_against_impl': self.traces,
            'exhaustive': self.exhaustive,
            'models': self.models,
            'known_findings_hit': self.known_hits,
            'notes': self.notes,
        }
        if self.states > 0:
            cov['states'] = self.states
            cov['transitions'] = self.transitions
        cov.update(self.extra)
        ev = {'property_id': self.prop, 'tier': self.tier, 'seed': seed(), 'level': self.level, 'coverage': cov,
              'assumptions': self.assumptions, 'wall_s': round(time.time() - self.t0, 1), 'violations': len(self.viol)}
        with open(os.path.join(ROOT, 'evidence', self.prop + '.json'), 'w') as f:
            json.dump(ev, f, indent=1)
        return rc


def default_key(e):
    if e is None:
        return None
    return hashlib.sha1(json.dumps([e.get('lines'), e.get('slot'), e.get('tag')], sort_keys=True).encode()).hexdigest()


def sample_of(e):
    s = {'event': e.get('e'), 'i': e.get('i')}
    if 'lines' in e:
        s['lines'] = [''.join(chr(c) for c in l)[:200] for l in e['lines'][:4]]
    if 'ch' in e:
        s['changed'] = [c['a'] for c in e['ch']]
    if 'tag' in e:
        s['tag'] = e['tag']
    return s


def scenario_of(v):
    """the scenario file that produced the trace of a violation (same name, .scn.ndjson), inlined"""
    t = v.get('trace')
    if not t:
        return None
    sc = t.replace('.trace.ndjson', '.scn.ndjson')
    if os.path.exists(sc):
        cmds = read_ndjson(sc)
        # keep it small: up to the failing event is enough, but events and commands are 1:1
        return cmds[:v['i']] if v.get('i') else cmds
    return None


def nt_floor(rep, floor):
    """non-vacuity: too few events on which the property's antecedent held is a tool error, not a verdict"""
    if len(rep.nontrivial) < floor:
        raise ToolError('non-vacuity floor not met for %s: %d distinct non-trivial cases < %d' % (rep.prop, len(rep.nontrivial), floor))
